"""What MANIFEST.json claims (edited by hand; bin/gen_manifest.py renders it)."""
HOOK_COMMITS = []
ENGINES = [
 {"name": "TV", "path": "engine/tv", "serves_properties": ["C01","C02","C03","C04","C05","C06","C07","C08","C09","C10","C11","C12","C13","C14","C15"], "kind_free_text": "real transformer on formulas with free leaves; independent FNode->z3 translation; z3 validity query per instance (all interpretations)"},
 {"name": "XH", "path": "engine/xh", "serves_properties": ["C01","C02","C03","C04","C05","C06","C08","C14","C15","C16","C17","C18","C19","C20"], "kind_free_text": "CrossHair symbolic execution of the real pySMT functions with symbolic payloads/selectors (z3 per path)"},
 {"name": "AZ", "path": "engine/az", "serves_properties": ["C07","C13"], "kind_free_text": "Python-AST -> z3 encodings with ITE merging, regenerated from /repo source each run"},
]
NOTES = "Solver-based checking of the real code; see DESIGN.md. Exit codes: 0 held, 1 reproduced unlisted violation, 2 harness error."
NOT_APPLICABLE = {}
CHECKS = {
 "C01": {"level": "model_checking", "engine": "TV+XH",
         "technique": "z3 validity of simplify(f)==f over a bounded-exhaustive grammar (all interpretations), real Simplifier run on formulas with free leaves; CrossHair on the rewrite rules with symbolic constant payloads and symbol values vs a reference evaluator",
         "text": "bounded symbolic: every operator x argument shape to depth 2 with boundary constants; z3 decides equality of input and output under ALL interpretations (Int/Real unbounded, BV all values at widths 1,2,3,8)",
         "note": "trusts z3 and the independent translator engine/ref/tr_z3.py; depth>2 argued by compositionality (bottom-up rules over simplified children)"},
 "C02": {"level": "model_checking", "engine": "XH+TV",
         "technique": "CrossHair symbolic execution of EagerModel.get_value/satisfies with symbolic assigned values vs reference evaluator; z3 validity of value==denotation on grammar terms",
         "text": "per operator x width: all assigned values explored symbolically (Confirmed over all paths); ground evaluation of ~3e5 grammar instances decided by z3 incl. array results and partial models",
         "note": "trusts CrossHair+z3, SymKeyDict dict model, bit-op plugin, engine/ref/refeval.py; widths/lengths bounded as listed in evidence"},
 "C05": {"level": "translation_validation", "engine": "TV+XH",
         "technique": "real substituters vs z3.substitute/substitute_funs on the independent translation (z3 validity); CrossHair over key masks vs reference MGS/MSS",
         "text": "substitution lemma decided by z3 for all interpretations on ~1.4e5 (formula, map, strategy) instances; term-keyed replacement order compared with an independent recursive definition over all 2^6 key masks; the environment's shared substituter right after a failing substitution must return the same object",
         "note": "trusts z3.substitute as capture-free substitution; maps <= 3 keys, replacement depth 1"},
 "C06": {"level": "translation_validation", "engine": "TV+XH",
         "technique": "z3 validity of derived constructor == directly written z3 term for all argument values; CrossHair on the infix/method operators with a symbolic Python literal operand vs plain integer arithmetic",
         "text": "every derived constructor / infix form at the listed arities and widths proven equal to its named function for ALL argument values (exact for Int/Real/BV); literal operands symbolic (BV: whole range incl. literals the width cannot represent, which must be rejected; Int unbounded)",
         "note": "trusts z3's SMod/AtMost/PbEq/Rotate as the named functions"},
 "C07": {"level": "translation_validation", "engine": "TV+AZ",
         "technique": "exported text read by z3's own SMT-LIB front end and proven equal to the independent translation (z3 validity); regex-inclusion query for quoting",
         "text": "tree and DAG export of ~7e3 formulas accepted by an independent reader with no pre-declared symbols and equal in meaning for all interpretations; unquoted names proven to be SMT-LIB simple symbols for all lengths; multi-assert scripts sharing sub-terms across commands; sort declarations (arity 0-3, nested) declared once before use",
         "note": "z3's reader is more permissive than the standard (Int/Real coercion); pow / non-ASCII strings not readable by it"},
 "C09": {"level": "translation_validation", "engine": "TV",
         "technique": "print->parse identity on the export grammar; z3 validity for constant arrays and HR regrouping",
         "text": "identity of parse(print(f)) for tree/DAG printers, command-list equality for scripts, HR round trip on ~1.2e5 terms with z3 deciding equivalence where objects differ",
         "note": "identity clauses are exhaustive runs over the bounded grammar, the solver decides the equivalence clauses only"},
 "C10": {"level": "translation_validation", "engine": "TV",
         "technique": "z3 validity of T(f)==f for nnf/prenex/aig/TimesDistributor/partitions/propagate_toplevel/QE over Boolean skeleton grammars incl. nested quantifiers",
         "text": "equivalence under all interpretations (Bool/BV quantifiers exact) plus advertised-shape recognisers, ~1.1e5 instances quick / 1.7e6 thorough, incl. families served by ONE re-used rewriter object",
         "note": "Int quantifier instances rely on z3's quantifier reasoning (unknown counted)"},
 "C11": {"level": "translation_validation", "engine": "TV",
         "technique": "quantified z3 validity queries: f => exists aux. cnf(f), cnf(f) => f; Ackermann: extension, abstraction and functional-consistency queries",
         "text": "model-by-model equisatisfiability decided by z3 with auxiliary symbols quantified, form recognisers, incl. re-used CNFizer / PolarityCNFizer / Ackermannizer instances",
         "note": "theory atoms opaque; <= 6 applications per symbol"},
}

CHECKS.update({
 "C08": {"level": "translation_validation", "engine": "TV+XH",
         "technique": "differential reading against z3's SMT-LIB front end with z3 validity per assertion; CrossHair on the tokenizer with symbolic input strings vs a reference lexer",
         "text": "each accepted script's assertions proven equal to an independent reader's under all interpretations; malformed variants must be rejected; constructs accepted when the allow-list was frozen must stay accepted; every script also read by a parser object that has read another script before (same object or same rejection); tokenizer explored over all strings up to the length bound",
         "note": "z3's reader stands in for the standard (where it rejects nothing is concluded); allow-list props/c08_accepted.json"},
 "C12": {"level": "translation_validation", "engine": "TV",
         "technique": "analyses vs independent recursive definitions; z3 validity for 'value depends only on reported free symbols' and 'truth value is a function of the reported atoms'",
         "text": "definitional equality on ~6e4 grammar instances; two semantic clauses decided by z3 for all interpretations",
         "note": "semantic clauses skipped above tree size 400"},
 "C13": {"level": "model_checking", "engine": "AZ+TV",
         "technique": "Theory/Logic order and selection code of pysmt/logics.py and the TheoryOracle.walk_* callbacks of pysmt/oracles.py interpreted from source into z3 (all 2^12 flag vectors per theory, all subsets of named logics, all child theories per operator); get_logic vs independent feature extraction",
         "text": "order axioms, upper-bound, closest-logic and one-detection-step properties are single z3 validity queries over the whole finite space; detection also checked end to end on ~2e4 formulas",
         "note": "AZ interpreter validated against the real code on all 72x72 pairs of named logics on every run; class invariant assumed"},
})

CHECKS.update({
 "C03": {"level": "model_checking", "engine": "XH+TV",
         "technique": "CrossHair on indexed constructors with symbolic integer payloads vs a three-valued typing reference; exhaustive sort-tuple enumeration; re-derivation of every node type in transformer outputs",
         "text": "every constructor x every argument-sort tuple (arity<=3) of a 10-sort pool; extract/rotate/extend/repeat/BV/SBV/shift payloads explored symbolically at widths 1-6(8); simplify/substitute/nnf outputs re-typed node by node",
         "note": "typing reference engine/ref/reftype.py is three-valued where pySMT is documented stricter than SMT-LIB"},
})

CHECKS.update({
 "C04": {"level": "model_checking", "engine": "XH+TV",
         "technique": "CrossHair with symbolic constant values / payload integers over a dict model of the hash-cons tables; structural-key comparison over construction routes and cross-environment copies",
         "text": "identity <=> value equality for Int (unbounded), BV (widths 1-4/6, all spellings), rationals (box), strings; payload-carrying operators in both construction orders; every grammar formula through blueprint/constructor routes; normalize from two source environments (incl. targets owning a clashing name); 18 iterable-taking constructors x 7 container kinds x 0-3 items give the object of the list call",
         "note": "SymKeyDict models Python's dict for value-keyed tables (assumes equal keys hash equal, checked for PySMTType); float spellings on a concrete set only"},
})

CHECKS.update({
 "C15": {"level": "fault_enumeration", "engine": "XH+TV",
         "technique": "CrossHair with the crash point of a traversal as a symbolic variable (fault injected at the k-th walker callback) + naturally failing calls; probe sequence vs an untouched twin environment",
         "text": "every callback index of 8 long-lived walkers explored (Confirmed over all paths), 12 naturally failing API calls and 5 failing scripts on a re-used parser; 16 probe calls compared structurally with a twin",
         "note": "faults are injected from outside by wrapping walker.functions; failures inside CPython built-ins are out of reach"},
})

CHECKS.update({
 "C14": {"level": "model_checking", "engine": "XH+TV",
         "technique": "CrossHair inductive step over the persistent memo state: symbolic subset of earlier calls, one call under test, result/identity/memo-entry comparison with fresh environments",
         "text": "for 25 calls under test, all 2^10 subsets of a pool of earlier calls on formulas sharing sub-DAGs are explored (Confirmed over all paths); the post-condition re-establishes 'every memo entry equals its fresh value', so one step covers histories of any length over the universe; constant-cache spellings and foreign-environment formulas enumerated",
         "note": "universe of 10 formulas; pool and calls listed in props/c14_xh.py"},
})

CHECKS.update({
 "C16": {"level": "model_checking", "engine": "XH",
         "technique": "CrossHair over symbolic command codes: every legal command history up to the bound is decoded into calls of the real IncrementalTrackingSolver / SmtLibScript and compared with a reference SMT-LIB assertion stack",
         "text": "all legal histories of length <= 5 (solver, incl. one-shot queries and solving under assumptions) and 4 (scripts, incl. soft clauses with ids/weights, objectives, push/pop 0..2, reset) - Confirmed over all paths per first command",
         "note": "brute-force stub solver wired like the native ones; solver.assertions read once per history (every prefix is a history); longer histories outside the bound"},
})

CHECKS.update({
 "C18": {"level": "model_checking", "engine": "XH",
         "technique": "CrossHair over the constants of a finite-domain constraint system and the oracle's model choice: the real generic optimisation loops run over a brute-force solver and are compared with optima computed by reference enumeration; interval kernel with fully symbolic bounds",
         "text": "per (goal kind, strategy, mixin, mode) every value of lo/hi/e/ylo/weights and both oracle behaviours explored (Confirmed over all paths): true optimum, lexicographic optimum, boxed optima, exact Pareto front, None iff unsat, assertion stack list and depth restored; a MaxSMT goal object extended between two optimisations, cost computed from the check's own clause list",
         "note": "domains BV(2) (quick) / BV(3) (thorough) and Int in [-2,2]; oracle = exhaustive enumerator evaluated with the reference evaluator"},
})

CHECKS.update({
 "C17": {"level": "model_checking", "engine": "XH",
         "technique": "CrossHair over symbolic call codes: the real SmtLibSolver drives a strict in-memory reference solver (scoped declarations, z3 for check-sat/get-value) substituted for the subprocess",
         "text": "all legal call histories up to the bound: command stream legal per SMT-LIB scoping, no command sent while a reply is unread, no API error, verdicts equal the truth of the intended live assertions (incl. unsatisfiable stacks and queries that simplify to TRUE), models complete and satisfying, shortcuts truthful",
         "note": "synchronous stand-in: real pipes, buffering and process death are outside; formulas over Bool/BV(2)"},
})

CHECKS.update({
 "C19": {"level": "fault_enumeration", "engine": "XH",
         "technique": "CrossHair over a symbolic arrival schedule and fault set: the real Portfolio parent-side logic runs over in-process fakes of multiprocessing Process/Queue/Pipe; blocking reads with nothing left to deliver are reported as hangs",
         "text": "every outcome vector {verdict, unknown, crash, silent death}^members x arrival order x late-loser flag x slow-member flag (polls that time out while members are still running) for two consecutive solves in solve/get_model/push/add/solve/pop cycles and one-shot queries (Confirmed over all paths)",
         "note": "parent side only; OS-level races between real processes are outside any symbolic engine available here (stated, not worked around)"},
})

CHECKS.update({
 "C20": {"level": "model_checking", "engine": "XH",
         "technique": "CrossHair over a symbolic nesting depth (2..40), sharing flag and DAG child indices: walker work-stack pops and node constructions counted from outside, interpreter recursion limit lowered around each service",
         "text": "bounded form only: per (operator family, service) work <= 24*|DAG|+60 steps for every depth and sharing pattern in the bound (tree size up to 2^40), and no more stack at depth d than at depth 2; 58 operator shapes nested in themselves and in each other with full sharing: DAG-printer text <= 120*|DAG|+400 characters, parse(print(f)) is f, linear parser work; the unbounded clauses (depth >= 20000, asymptotic linearity) are not claimed",
         "note": "the literal 'depth >= 20000 under the default recursion limit' is a bound-free claim outside solver-based bounded checking (stated in DESIGN.md section 4)"},
})
