"""What MANIFEST.json claims (edited by hand; bin/gen_manifest.py renders it)."""
HOOK_COMMITS = []
ENGINES = [
 {"name": "TV", "path": "engine/tv", "serves_properties": ["C01"], "kind_free_text": "real transformer on formulas with free leaves; independent FNode->z3 translation; z3 validity query per instance (all interpretations)"},
 {"name": "XH", "path": "engine/xh", "serves_properties": [], "kind_free_text": "CrossHair symbolic execution of the real pySMT functions with symbolic payloads/selectors (z3 per path)"},
 {"name": "AZ", "path": "engine/az", "serves_properties": [], "kind_free_text": "Python-AST -> z3 encodings with ITE merging, regenerated from /repo source each run"},
]
NOTES = "Solver-based checking of the real code; see DESIGN.md. Exit codes: 0 held, 1 reproduced unlisted violation, 2 harness error."
NOT_APPLICABLE = {}
CHECKS = {
 "C01": {"level": "model_checking", "engine": "TV+XH+AZ",
         "technique": "z3 validity of simplify(f)==f over a bounded-exhaustive grammar (all interpretations); CrossHair on folding rules with symbolic constants",
         "text": "bounded symbolic: every operator x argument shape to depth 2, all interpretations / all constant payloads inside the stated widths decided by z3",
         "note": "trusts z3, CrossHair, the independent translator/evaluator in engine/ref; depth>2 argued by compositionality"},
}
