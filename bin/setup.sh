#!/bin/bash
# Builds the overlay venv offline: /venv's packages + /repo (working tree) + crosshair-tool/z3 from the wheelhouse.
set -e
cd "$(dirname "$0")/.."
V="$(pwd)/.venv"
if [ ! -x "$V/bin/python" ] || ! "$V/bin/python" -c 'import crosshair, z3, jsonschema' 2>/dev/null; then
  rm -rf "$V"
  /venv/bin/python -m venv "$V"
  SP=$("$V/bin/python" -c 'import site; print(site.getsitepackages()[0])')
  printf '/venv/lib/python3.12/site-packages\n' > "$SP/verif_overlay.pth"
  PIP_NO_INDEX=1 "$V/bin/pip" install -q --no-index --find-links /opt/veriftools/wheels crosshair-tool z3-solver jsonschema cvc5 >/dev/null 2>&1 || \
  PIP_NO_INDEX=1 "$V/bin/pip" install -q --no-index --find-links /opt/veriftools/wheels crosshair-tool z3-solver jsonschema
fi
"$V/bin/python" -c 'import crosshair, z3; print("overlay ok: z3", z3.get_version_string())'
