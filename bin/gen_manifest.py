#!/usr/bin/env python3
"""Regenerates MANIFEST.json from the table below (single source of truth for what is claimed)."""
import json, os
V = os.path.dirname(os.path.dirname(os.path.abspath(__file__)))

CHECKS = {
 # pid: (level, technique, level_text, level_note, design_ref)
}
NOT_APPLICABLE = {}

def load():
    import importlib.util
    spec = importlib.util.spec_from_file_location("claims", os.path.join(V, "claims.py"))
    m = importlib.util.module_from_spec(spec); spec.loader.exec_module(m)
    return m

def main():
    c = load()
    checks = []
    for pid in sorted(c.CHECKS):
        d = c.CHECKS[pid]
        checks.append({
            "property_id": pid,
            "quick_cmd": "bin/vcheck %s --tier quick" % pid,
            "thorough_cmd": "bin/vcheck %s --tier thorough" % pid,
            "evidence_file": "evidence/%s.json" % pid,
            "replay_cmd_template": "bin/vcheck %s --replay {path}" % pid,
            "engine": d["engine"],
            "level_claimed": {"category": d["level"], "text": d["text"], "design_ref": d.get("design_ref", "DESIGN.md §3 " + pid)},
            "level_note": d["note"],
            "technique": d["technique"],
        })
    props = [json.loads(l)["id"] for l in open(os.path.join(V, "properties.jsonl"))]
    na = []
    for pid in props:
        if pid not in c.CHECKS:
            na.append({"property_id": pid, "reason": c.NOT_APPLICABLE.get(pid, "check not built yet (solver-based harness under construction)")})
    man = {
        "version": 1,
        "setup_cmd": "bin/setup.sh",
        "hooks": {"guard": "PYSMT_VERIF", "enable": "no source hooks: all stubs are applied from /verif at run time by attribute replacement",
                  "baseline_off_cmd": "cd /repo && /venv/bin/python -m pytest -ra -q -p no:cacheprovider --timeout=900 --continue-on-collection-errors",
                  "source_commits": c.HOOK_COMMITS, "add_only": True},
        "engines": c.ENGINES,
        "checks": checks,
        "notes": c.NOTES,
        "not_applicable": na,
    }
    with open(os.path.join(V, "MANIFEST.json"), "w") as fh:
        json.dump(man, fh, indent=1)
    print("MANIFEST.json: %d checks, %d not_applicable" % (len(checks), len(na)))

if __name__ == "__main__":
    main()
