"""C17 XH harness: call histories on the real SmtLibSolver talking to a strict in-memory reference solver.

Symbolic command codes select the API calls; after the history:
  * the reference solver saw only legal commands (declared exactly once while in scope and before use, pops within
    the push depth, get-value only in sat mode), and no command was sent while a reply was still unread;
  * no API call raised (all calls of a legal history are legal for the caller);
  * every verdict equals the truth of the INTENDED live assertions (independent bookkeeping + z3 on tr_z3);
  * after a sat verdict the model assigns every free symbol of the live assertions and satisfies them (refeval),
    and get_value agrees with it;  is_sat / is_valid / is_unsat return the corresponding truth.
"""
from crosshair.tracers import NoTracing

from engine.xh.model import new_env

PARAMS = {}

CMDS = ["assert0", "assert1", "assert2", "assert3", "assert4", "push1", "push2", "pop1", "pop2", "solve", "solve_model", "reset",
        "is_sat", "is_sat_taut", "is_valid", "is_unsat", "push0", "pop0", "is_sat_model", "end"]
REDUCED = ["assert0", "assert2", "assert3", "assert4", "push1", "push2", "pop1", "solve_model", "reset", "is_sat", "is_sat_taut", "pop0",
           "is_sat_model", "end"]


def decode(codes, k):
    out = []
    for c in codes:
        idx = -1
        for j in range(k):
            if c == j:
                idx = j
                break
        if idx < 0:
            return None
        out.append(idx)
    return out


def pool(env):
    from pysmt import typing as T
    m = env.formula_manager
    a, b, c = m.Symbol("a", T.BOOL), m.Symbol("b", T.BOOL), m.Symbol("c c", T.BOOL)
    x = m.Symbol("x", env.type_manager.BVType(2))
    y = m.Symbol("y", env.type_manager.BVType(2))
    d, e = m.Symbol("d", T.BOOL), m.Symbol("e", T.BOOL)
    # assert0 mentions symbols (d, e) only in parts that simplification removes
    return {"assert0": m.And(m.Or(a, b), m.Or(d, m.TRUE()), m.Implies(m.FALSE(), e)), "assert1": m.Not(a), "assert2": m.BVULT(x, y), "assert3": m.And(c, m.Equals(y, m.BV(1, 2))),
            # assert4 contradicts assert3 (unsatisfiable stacks); q_taut simplifies to TRUE before it reaches the solver
            "assert4": m.And(m.Not(c), m.BVULT(y, x)), "q_taut": m.Or(e, m.Not(e)),
            "q_sat": m.And(b, m.Not(c)), "q_valid": m.Or(a, m.Not(a), m.BVULT(x, x)), "q_unsat": m.And(a, m.Not(a)),
            "a": a, "x": x}


def truth(fs):
    """is the conjunction satisfiable? (independent translation + z3)"""
    import z3
    from engine.ref.tr_z3 import Z3Tr
    tr = Z3Tr()
    s = z3.Solver()
    for f in fs:
        s.add(tr.tr(f))
    return s.check() == z3.sat


def history_body(codes, twin):
    alphabet = REDUCED if PARAMS.get("reduced") else CMDS
    seq = decode(codes, len(alphabet))
    if seq is None:
        return True
    names = [alphabet[c] for c in seq]
    if "end" in names:
        k = names.index("end")
        if any(n != "end" for n in names[k:]):
            return True
        names = names[:k]
    names = [PARAMS["first"]] + ([PARAMS["second"]] if "second" in PARAMS else []) + names
    with NoTracing():
        from unittest import mock
        import pysmt.smtlib.solver as S
        from pysmt.logics import QF_BV
        from engine import fakesmt
        from engine.ref import refeval
        from engine.ref import refstruct as rs
        env = new_env(dict_model=False)
        m = env.formula_manager
        P = pool(env)
        ok = True
        why = ""
        legal = True
        with mock.patch.object(S, "Popen", fakesmt.FakeProcess), mock.patch.object(S, "TextIOWrapper", fakesmt.identity_wrapper), \
                mock.patch.object(S.time, "sleep", lambda *_: None):
            solver = S.SmtLibSolver(["fake-solver"], env, QF_BV, LOGICS=[QF_BV])
            proc = fakesmt.FakeProcess.instances[-1]
            frames = [[]]

            def live():
                return [f for fr in frames for f in fr]
            try:
                for nm in names:
                    if nm.startswith("assert"):
                        solver.add_assertion(P[nm])
                        frames[-1].append(P[nm])
                    elif nm in ("push0", "push1", "push2"):
                        k = int(nm[-1])
                        solver.push(k)
                        for _ in range(k):
                            frames.append([])
                    elif nm in ("pop0", "pop1", "pop2"):
                        k = int(nm[-1])
                        if k > len(frames) - 1:
                            legal = False
                            break
                        solver.pop(k)
                        for _ in range(k):
                            frames.pop()
                    elif nm == "reset":
                        solver.reset_assertions()
                        frames = [[]]
                    elif nm in ("solve", "solve_model"):
                        r = solver.solve()
                        exp = truth(live())
                        if r != exp:
                            ok, why = False, "verdict %s, truth %s" % (r, exp)
                            break
                        if r and nm == "solve_model":
                            model = solver.get_model()
                            fv = set()
                            sent = set()
                            for f in live():
                                fv |= set(rs.free_vars(f))
                                # the wrapper asserts the simplified formula: symbols that simplification removes are
                                # never shown to the solver and are completed with defaults
                                sent |= set(rs.free_vars(f.simplify()))
                            it = {}
                            for s_ in fv:
                                if s_ in sent and s_ not in model:
                                    ok, why = False, "model misses %s" % s_
                                    break
                                it[s_] = model.get_py_value(s_)
                            fv = sent
                            if not ok:
                                break
                            if not all(refeval.evaluate(f, it) for f in live()):
                                ok, why = False, "model does not satisfy the live assertions"
                                break
                            for s_ in fv:
                                if solver.get_value(s_).constant_value() != it[s_]:
                                    ok, why = False, "get_value disagrees with the model"
                                    break
                    elif nm == "is_sat":
                        if solver.is_sat(P["q_sat"]) != truth(live() + [P["q_sat"]]):
                            ok, why = False, "is_sat wrong"
                            break
                    elif nm == "is_sat_model":
                        # a one-shot query that answers sat keeps its model available until the next command
                        want = truth(live() + [P["q_sat"]])
                        if solver.is_sat(P["q_sat"]) != want:
                            ok, why = False, "is_sat wrong"
                            break
                        if want:
                            model = solver.get_model()
                            fs = live() + [P["q_sat"]]
                            it = {}
                            for f in fs:
                                for s_ in rs.free_vars(f):
                                    it[s_] = model.get_py_value(s_)
                            if not all(refeval.evaluate(f, it) for f in fs):
                                ok, why = False, "model after is_sat does not satisfy the live assertions and the query"
                                break
                    elif nm == "is_sat_taut":
                        if solver.is_sat(P["q_taut"]) != truth(live()):
                            ok, why = False, "is_sat(tautology) is not the satisfiability of the live assertions"
                            break
                    elif nm == "is_valid":
                        if solver.is_valid(P["q_valid"]) != (not truth(live() + [m.Not(P["q_valid"])])):
                            ok, why = False, "is_valid wrong"
                            break
                    elif nm == "is_unsat":
                        if solver.is_unsat(P["q_unsat"]) != (not truth(live() + [P["q_unsat"]])):
                            ok, why = False, "is_unsat wrong"
                            break
            except Exception as e:
                ok, why = False, "API call raised %r" % (e,)
            if legal and ok:
                if proc.solver.errors:
                    ok, why = False, "illegal command stream: %s" % (proc.solver.errors[:1],)
                elif proc.violations:
                    ok, why = False, "reply desynchronisation: %s" % proc.violations[:1]
        PARAMS["_why"] = why
    if not legal:
        return True
    if twin:
        return False
    return ok


def h_hist(c1: int, c2: int, c3: int, c4: int) -> bool:
    """
    post: _
    """
    return history_body([c1, c2, c3, c4][:PARAMS["len"]], False)


def h_hist_twin(c1: int, c2: int, c3: int, c4: int) -> bool:
    """
    post: _
    """
    return history_body([c1, c2, c3, c4][:PARAMS["len"]], True)
