"""C19 XH harness: the parent-side selection logic of Portfolio under a symbolic arrival schedule and fault set.

`Process`, `Queue` and `Pipe` as imported by pysmt.solvers.portfolio are replaced by in-process fakes.  Per solve and
per member a symbolic outcome in {verdict, unknown-exception, crash-exception, dies-silently}, a symbolic arrival
order, a symbolic flag "a losing member still manages to report before it is terminated" and a symbolic flag "members are slow:
every delivery is preceded by one poll that times out while the members that will still report are running".  Members that report a
verdict report the same (true) one.  `Queue.get` with nothing left to deliver and no time-out models "blocks
forever" (Hang).  Post: verdict = truth whenever at least one member reports; an error - not a hang - when none does;
get_model / get_value afterwards are answered by a live member that reported, and the model satisfies the assertions;
the cycle  solve / (get_model) / push / add / solve / pop / solve  keeps working.
NOT modelled (outside the claim): OS scheduling between real processes - timing gaps, signal latency, a loser reading
the shared control pipe between selection and terminate().
"""
import itertools
import queue as pyqueue

from crosshair.tracers import NoTracing

from engine.xh.model import new_env

PARAMS = {}

OUTCOMES = ["verdict", "unknown", "crash", "silent"]


class Hang(Exception):
    pass


class World(object):
    """scenario for the next solve, shared by the fakes"""

    def __init__(self):
        self.scenarios = []          # one per solve: dict(outcomes=[...], order=[...], late=bool)
        self.solve_no = -1
        self.procs = []              # processes of the current solve
        self.truth = None
        self.formula = None
        self.env = None
        self.answered = set()
        self.log = []


W = None


class FakeProcess(object):
    def __init__(self, name=None, target=None, args=()):
        self.name = name
        self.args = args
        self.started = False
        self.terminated = False
        self.dead = False
        self.reported_verdict = False
        W.procs.append(self)
        if len(W.procs) == 1:
            # first process of a new solve
            W.solve_no += 1
            W.formula = args[4]
            W.truth = brute_truth(W.formula)

    def start(self):
        self.started = True

    def terminate(self):
        self.terminated = True

    def is_alive(self):
        return self.started and not self.terminated and not self.dead

    def join(self, timeout=None):
        pass


class FakeQueue(object):
    """items put by the members of the solves that used THIS queue object, in arrival order"""

    def __init__(self):
        self.pending = []
        self.built_for = None
        self.late = False
        self.gap_due = False

    def build(self):
        sc = W.scenarios[min(W.solve_no, len(W.scenarios) - 1)]
        procs = list(W.procs)
        for k in sc["order"]:
            if k >= len(procs):
                continue
            p = procs[k]
            oc = sc["outcomes"][k]
            if oc == "verdict":
                self.pending.append((p, (p.args[0], W.truth)))
            elif oc == "unknown":
                from pysmt.exceptions import SolverReturnedUnknownResultError
                self.pending.append((p, (p.args[1], SolverReturnedUnknownResultError())))
            elif oc == "crash":
                self.pending.append((p, (p.args[1], RuntimeError("member crashed"))))
            else:
                p.dead = True
        self.late = sc["late"]
        self.gap_due = sc.get("gap", False)
        self.built_for = W.solve_no

    def get(self, block=True, timeout=None):
        if self.built_for != W.solve_no:
            self.build()
        if self.pending and self.gap_due and timeout is not None:
            # slow members: the poll times out although members that will still report are running
            self.gap_due = False
            raise pyqueue.Empty()
        if self.pending:
            self.gap_due = W.scenarios[min(W.solve_no, len(W.scenarios) - 1)].get("gap", False)
            p, item = self.pending.pop(0)
            if isinstance(item[1], bool):
                p.reported_verdict = True
                if not self.late:
                    # the other members are terminated before they get to report
                    self.pending = [x for x in self.pending if x[0] not in W.procs]
                # late: they report into this queue object just before being killed (their entries stay)
            else:
                p.dead = True
            return item
        for q in W.procs:
            if not q.reported_verdict:
                q.dead = True
        if timeout is not None or not block:
            raise pyqueue.Empty()
        raise Hang("Queue.get() with no member left to report: the real call blocks forever")

    def put(self, item):
        pass

    def empty(self):
        return not self.pending


class FakeConn(object):
    def __init__(self):
        self.reply = None

    def send(self, msg):
        receivers = [p for p in W.procs if p.reported_verdict and not p.terminated and not p.dead]
        if msg == "exit":
            for p in receivers:
                p.dead = True
            return
        if not receivers:
            self.reply = Hang("control message %r sent but no live member that reported a verdict is listening" % (msg,))
            return
        model = brute_model(W.formula)
        if msg == "get_model":
            self.reply = list(model.items())
        elif isinstance(msg, tuple) and msg[0] == "get_value":
            from pysmt.solvers.eager import EagerModel
            self.reply = EagerModel(model, W.env).get_value(msg[1])

    def recv(self):
        if isinstance(self.reply, Hang):
            raise self.reply
        if self.reply is None:
            raise Hang("recv with nothing sent")
        r, self.reply = self.reply, None
        return r

    def poll(self, timeout=None):
        return self.reply is not None and not isinstance(self.reply, Hang)

    def close(self):
        pass


def fake_pipe(duplex=True):
    c = FakeConn()
    return c, c


def symbols_of(f):
    from engine.ref import refstruct as rs
    return sorted(rs.free_vars(f), key=lambda s: s.symbol_name())


def brute_model(f):
    from engine.ref import refeval
    syms = symbols_of(f)
    for vals in itertools.product([False, True], repeat=len(syms)):
        it = dict(zip(syms, vals))
        if refeval.evaluate(f, it):
            m = W.env.formula_manager
            return {s: m.Bool(v) for s, v in it.items()}
    return None


def brute_truth(f):
    return brute_model(f) is not None


def decode(v, n):
    for j in range(n):
        if v == j:
            return j
    return None


def scenario_from(code_out, code_ord, late, nmem, gap=False):
    """code_out in [0, 4^nmem): outcome per member; code_ord: index into the permutations of the members"""
    outs = []
    c = code_out
    for _ in range(nmem):
        outs.append(OUTCOMES[c % 4])
        c //= 4
    perms = list(itertools.permutations(range(nmem)))
    return {"outcomes": outs, "order": list(perms[code_ord]), "late": late, "gap": gap}


def body(o1, p1, l1, o2, p2, l2, twin, gp=False):
    global W
    nmem = PARAMS.get("members", 2)
    nperm = len(list(itertools.permutations(range(nmem))))
    a1 = PARAMS["o1"] if "o1" in PARAMS else decode(o1, 4 ** nmem)     # the first outcome vector may be fixed per condition
    b1 = decode(p1, nperm)
    a2, b2 = decode(o2, 4 ** nmem), decode(p2, nperm)
    if None in (a1, b1, a2, b2):
        return True
    late1 = True if l1 else False
    late2 = True if l2 else False
    gap = True if gp else False
    with NoTracing():
        from unittest import mock
        from pysmt import typing as T
        from pysmt.logics import QF_BOOL
        import pysmt.solvers.portfolio as PF
        from engine.stubsolver import make_stub_class
        from engine.ref import refeval
        env = new_env(dict_model=False)
        W = World()
        W.env = env
        W.scenarios = [scenario_from(a1, b1, late1, nmem, gap), scenario_from(a2, b2, late2, nmem, gap),
                       scenario_from(a1, b1, late1, nmem, gap)]
        m = env.formula_manager
        a, b = m.Symbol("a", T.BOOL), m.Symbol("b", T.BOOL)
        Stub = make_stub_class()
        for k in range(nmem):
            env.factory._all_solvers["stub%d" % k] = Stub
        ok = True
        why = ""
        script = PARAMS.get("script", "cycle")
        with mock.patch.object(PF, "Process", FakeProcess), mock.patch.object(PF, "Queue", FakeQueue), \
                mock.patch.object(PF, "Pipe", fake_pipe):
            port = PF.Portfolio(["stub%d" % k for k in range(nmem)], environment=env, logic=QF_BOOL, incremental=True,
                                generate_models=True)

            def one_solve(label, assertions, sc):
                """returns (ok, why)"""
                W.procs = []
                reporters = [oc for oc in sc["outcomes"] if oc == "verdict"]
                truth = brute_truth(m.And(assertions))
                try:
                    res = port.solve()
                except Hang as h:
                    return False, "%s: %s" % (label, h)
                except Exception as e:
                    if reporters:
                        return False, "%s: raised %r although a member reports a verdict" % (label, e)
                    return True, ""
                if not reporters:
                    return False, "%s: returned %r although no member reported a verdict" % (label, res)
                if res != truth:
                    return False, "%s: verdict %r, members agree on %r" % (label, res, truth)
                if res:
                    try:
                        model = port.get_model()
                        it = {s: model.get_py_value(s) for s in symbols_of(m.And(assertions))}
                        if not all(refeval.evaluate(f, it) for f in assertions):
                            return False, "%s: model does not satisfy the assertions" % label
                        v = port.get_value(a)
                        if v.constant_value() != it.get(a, v.constant_value()):
                            return False, "%s: get_value disagrees with the model" % label
                    except Hang as h:
                        return False, "%s: %s" % (label, h)
                return True, ""
            f1 = m.Or(a, b)
            port.add_assertion(f1)
            ok, why = one_solve("solve#1 {a|b}", [f1], W.scenarios[0])
            if ok and script == "cycle":
                port.push()
                f2 = m.And(m.Not(a), m.Not(b))
                port.add_assertion(f2)
                ok, why = one_solve("solve#2 {a|b, !a&!b}", [f1, f2], W.scenarios[1])
                if ok:
                    port.pop()
                    f3 = m.Not(a)
                    port.add_assertion(f3)
                    ok, why = one_solve("solve#3 {a|b, !a}", [f1, f3], W.scenarios[2])
            if ok and script == "oneshot":
                # one-shot query, then an assertion, then solve (pending pop interplay)
                try:
                    W.procs = []
                    r = port.is_sat(b)          # second solve of this history: scenario #1
                except Hang as h:
                    ok, why = False, "is_sat: %s" % h
                except Exception:
                    r = None
                if ok and r is None:
                    # the one-shot query failed (no member answered): C15 territory, not continued here
                    pass
                elif ok:
                    f2 = m.Not(a)
                    port.add_assertion(f2)
                    ok, why = one_solve("solve after is_sat {a|b, !a}", [f1, f2], W.scenarios[2])
                    if ok and list(port.assertions) != [f1, f2]:
                        ok, why = False, "assertions %s" % (list(port.assertions),)
            try:
                port.exit()
            except Exception:
                pass
        PARAMS["_why"] = why
    if twin:
        return False
    return ok


def h_port(o1: int, p1: int, l1: bool, o2: int, p2: int, l2: bool, gp: bool) -> bool:
    """
    post: _
    """
    return body(o1, p1, l1, o2, p2, l2, False, gp)


def h_port_twin(o1: int, p1: int, l1: bool, o2: int, p2: int, l2: bool, gp: bool) -> bool:
    """
    post: _
    """
    return body(o1, p1, l1, o2, p2, l2, True, gp)


# ---- a text-interface member whose external solver process dies: the member must FAIL (raise), never spin ------------------------
def death_body(d, bp, script, twin):
    dd = None
    for j in range(0, 12):
        if d == j:
            dd = j
            break
    sc = None
    for j in range(3):
        if script == j:
            sc = j
            break
    if dd is None or sc is None:
        return True
    broken = True if bp else False
    with NoTracing():
        from unittest import mock
        import pysmt.smtlib.solver as S
        from pysmt.logics import QF_BV
        from pysmt import typing as T
        from engine import fakesmt
        env = new_env(dict_model=False)
        m = env.formula_manager
        a, b = m.Symbol("a", T.BOOL), m.Symbol("b", T.BOOL)
        x = m.Symbol("x", env.type_manager.BVType(2))
        ok = True
        why = ""
        fakesmt.FakeProcess.DIE_AFTER = dd
        fakesmt.FakeProcess.BROKEN_PIPE = broken
        died = False
        try:
            with mock.patch.object(S, "Popen", fakesmt.FakeProcess), mock.patch.object(S, "TextIOWrapper", fakesmt.identity_wrapper), \
                    mock.patch.object(S.time, "sleep", lambda *_: None):
                try:
                    solver = S.SmtLibSolver(["fake-solver"], env, QF_BV, LOGICS=[QF_BV])
                    proc = fakesmt.FakeProcess.instances[-1]
                    if sc == 0:
                        solver.add_assertion(m.Or(a, b))
                        r = solver.solve()
                        if r:
                            solver.get_model()
                    elif sc == 1:
                        solver.add_assertion(a)
                        solver.push()
                        solver.add_assertion(m.BVULT(x, m.BV(2, 2)))
                        r = solver.solve()
                        solver.get_value(x)
                        solver.pop()
                        r = solver.solve()
                    else:
                        r = solver.is_sat(m.And(a, m.Not(b)))
                        solver.add_assertion(b)
                        r = solver.solve()
                    died = proc.dead
                    if died:
                        ok, why = False, "every call returned normally although the solver process died after %d commands" % dd
                except fakesmt.Spin as e:
                    ok, why = False, str(e)
                except fakesmt.Desync as e:
                    ok, why = False, "desynchronised before the process died: %s" % e
                except Exception:
                    proc = fakesmt.FakeProcess.instances[-1]
                    if not proc.dead:
                        ok, why = False, "API call raised although the solver process was alive"
                    died = True
        finally:
            fakesmt.FakeProcess.DIE_AFTER = None
            fakesmt.FakeProcess.BROKEN_PIPE = False
        PARAMS["_why"] = why
        reached = died
    if twin:
        return not reached
    return ok


def h_death(d: int, bp: bool, script: int) -> bool:
    """
    post: _
    """
    return death_body(d, bp, script, False)


def h_death_twin(d: int, bp: bool, script: int) -> bool:
    """
    post: _
    """
    return death_body(d, bp, script, True)
