"""C06 XH harness: infix operators / methods / derived constructors applied to a symbol and a SYMBOLIC Python literal.

`x <op> k` with k a CrossHair-symbolic int: the real FNode infix code coerces the literal (`_infix_prepare_arg`), builds
the base operators, and the resulting formula is evaluated (engine/ref/refeval.py) under a symbolic value of x and compared
with the meaning written directly in Python integer arithmetic below.  Literals the sort cannot represent must be rejected.
Index-like literals (shift, rotate, extend, extract, repeat) are decoded by a traced comparison chain, so every admissible
value is covered while the node payloads stay concrete.
"""
from fractions import Fraction

from engine.xh.model import new_env
from engine.ref import refeval

PARAMS = {}

RAISE = "raise"


def M():
    return 2 ** PARAMS.get("w", 3)


def signed(v, w):
    return v - 2 ** w if v >= 2 ** (w - 1) else v


# ---- BV: op -> (builder(x, k, mgr), meaning(xv, k, w), literal class) ------------------------------------------------
#   literal class: "val" = coerced to a constant of x's sort (admissible iff 0 <= k < 2^w)
#                  "sval" = signed constant (admissible iff -2^(w-1) <= k < 2^(w-1));   "idx:<lo>:<hi>" = decoded index
def bv_table():
    T = {}
    T["x+k"] = (lambda x, k, m: x + k, lambda xv, k, w: (xv + k) % 2 ** w, "val")
    T["k+x"] = (lambda x, k, m: k + x, lambda xv, k, w: (k + xv) % 2 ** w, "val")
    T["x-k"] = (lambda x, k, m: x - k, lambda xv, k, w: (xv - k) % 2 ** w, "val")
    T["k-x"] = (lambda x, k, m: k - x, lambda xv, k, w: (k - xv) % 2 ** w, "val")
    T["x*k"] = (lambda x, k, m: x * k, lambda xv, k, w: (xv * k) % 2 ** w, "val")
    T["k*x"] = (lambda x, k, m: k * x, lambda xv, k, w: (xv * k) % 2 ** w, "val")
    T["x&k"] = (lambda x, k, m: x & k, lambda xv, k, w: refeval.bitwise("and", xv, k, w), "val")
    T["k|x"] = (lambda x, k, m: k | x, lambda xv, k, w: refeval.bitwise("or", xv, k, w), "val")
    T["x^k"] = (lambda x, k, m: x ^ k, lambda xv, k, w: refeval.bitwise("xor", xv, k, w), "val")
    T["x<k"] = (lambda x, k, m: x < k, lambda xv, k, w: xv < k, "val")
    T["x<=k"] = (lambda x, k, m: x <= k, lambda xv, k, w: xv <= k, "val")
    T["x>k"] = (lambda x, k, m: x > k, lambda xv, k, w: xv > k, "val")
    T["x>=k"] = (lambda x, k, m: x >= k, lambda xv, k, w: xv >= k, "val")
    T["x/k"] = (lambda x, k, m: x / k, lambda xv, k, w: (2 ** w - 1) if k == 0 else xv // k, "val")
    T["x%k"] = (lambda x, k, m: x % k, lambda xv, k, w: xv if k == 0 else xv % k, "val")
    T["Equals(k)"] = (lambda x, k, m: x.Equals(k), lambda xv, k, w: xv == k, "val")
    T["NotEquals(k)"] = (lambda x, k, m: x.NotEquals(k), lambda xv, k, w: xv != k, "val")
    T["BV(k)"] = (lambda x, k, m: m.Equals(x, m.BV(k, PARAMS["w"])), lambda xv, k, w: xv == k, "val")
    T["SBV(k)"] = (lambda x, k, m: m.Equals(x, m.SBV(k, PARAMS["w"])), lambda xv, k, w: xv == k % 2 ** w, "sval")
    T["BVSLT(SBV k)"] = (lambda x, k, m: m.BVSLT(x, m.SBV(k, PARAMS["w"])), lambda xv, k, w: signed(xv, w) < k, "sval")
    # index-like literals (decoded): shifts by an int literal are coerced to a constant of the same width
    T["x<<k"] = (lambda x, k, m: x << k, lambda xv, k, w: (xv * 2 ** k) % 2 ** w, "idxval")
    T["x>>k"] = (lambda x, k, m: x >> k, lambda xv, k, w: xv // 2 ** k, "idxval")
    T["BVLShl(int)"] = (lambda x, k, m: m.BVLShl(x, k), lambda xv, k, w: (xv * 2 ** k) % 2 ** w, "idxval")
    T["BVLShr(int)"] = (lambda x, k, m: m.BVLShr(x, k), lambda xv, k, w: xv // 2 ** k, "idxval")
    T["BVAShr(int)"] = (lambda x, k, m: m.BVAShr(x, k), lambda xv, k, w: (signed(xv, w) // 2 ** k) % 2 ** w, "idxval")
    T["BVRol(k)"] = (lambda x, k, m: x.BVRol(k),
                     lambda xv, k, w: ((xv * 2 ** (k % w)) % 2 ** w) + (xv // 2 ** (w - (k % w))), "idx")
    T["BVRor(k)"] = (lambda x, k, m: x.BVRor(k),
                     lambda xv, k, w: (xv // 2 ** (k % w)) + ((xv % 2 ** (k % w)) * 2 ** (w - (k % w))), "idx")
    T["BVZExt(k)"] = (lambda x, k, m: x.BVZExt(k), lambda xv, k, w: xv, "ext")
    T["BVSExt(k)"] = (lambda x, k, m: x.BVSExt(k), lambda xv, k, w: signed(xv, w) % 2 ** (w + k), "ext")
    T["x[k]"] = (lambda x, k, m: x[k], lambda xv, k, w: (xv // 2 ** k) % 2, "bit")
    T["x[:k]"] = (lambda x, k, m: x[:k], lambda xv, k, w: xv % 2 ** (k + 1), "bit")
    T["x[k:w-1]"] = (lambda x, k, m: x[k:PARAMS["w"] - 1], lambda xv, k, w: xv // 2 ** k, "bit")
    T["BVRepeat(k)"] = (lambda x, k, m: x.BVRepeat(k), lambda xv, k, w: sum(xv * 2 ** (w * j) for j in range(k)), "rep")
    return T


BV_OPS = bv_table()


def int_table():
    T = {}
    T["x+k"] = (lambda x, k, m: x + k, lambda xv, k: xv + k)
    T["k+x"] = (lambda x, k, m: k + x, lambda xv, k: k + xv)
    T["x-k"] = (lambda x, k, m: x - k, lambda xv, k: xv - k)
    T["k-x"] = (lambda x, k, m: k - x, lambda xv, k: k - xv)
    T["x*k"] = (lambda x, k, m: x * k, lambda xv, k: xv * k)
    T["k*x"] = (lambda x, k, m: k * x, lambda xv, k: k * xv)
    T["x<k"] = (lambda x, k, m: x < k, lambda xv, k: xv < k)
    T["x<=k"] = (lambda x, k, m: x <= k, lambda xv, k: xv <= k)
    T["x>k"] = (lambda x, k, m: x > k, lambda xv, k: xv > k)
    T["x>=k"] = (lambda x, k, m: x >= k, lambda xv, k: xv >= k)
    T["Equals(k)"] = (lambda x, k, m: x.Equals(k), lambda xv, k: xv == k)
    T["NotEquals(k)"] = (lambda x, k, m: x.NotEquals(k), lambda xv, k: xv != k)
    T["neg(x+k)"] = (lambda x, k, m: -(x + k), lambda xv, k: -(xv + k))
    T["Min(x,k)"] = (lambda x, k, m: m.Min(x, m.Int(k)), lambda xv, k: xv if xv <= k else k)
    T["Max(x,k)"] = (lambda x, k, m: m.Max(x, m.Int(k)), lambda xv, k: xv if xv >= k else k)
    T["GE(x,k)"] = (lambda x, k, m: m.GE(x, m.Int(k)), lambda xv, k: xv >= k)
    T["GT(k,x)"] = (lambda x, k, m: m.GT(m.Int(k), x), lambda xv, k: k > xv)
    return T


INT_OPS = int_table()


def decode(k, lo, hi):
    for j in range(lo, hi + 1):
        if k == j:
            return j
    return None


def lit_range(xv, k):
    w = PARAMS.get("w", 3)
    if PARAMS["sort"] == "I":
        return True
    if PARAMS["sort"] == "R":
        q = PARAMS.get("qbox", 4)
        return -q <= xv <= q
    return 0 <= xv < 2 ** w and -(2 ** w) - 1 <= k <= 2 ** w + 1


def body(xv, k, d, twin):
    sort = PARAMS["sort"]
    op = PARAMS["op"]
    env = new_env()
    m = env.formula_manager
    if sort == "I":
        from pysmt import typing as T
        x = m.Symbol("x", T.INT)
        build, meaning = INT_OPS[op]
        f = build(x, k, m)
        exp = meaning(xv, k)
        if twin:
            return False
        got = refeval.evaluate(f, {x: xv})
        return same(got, exp)
    if sort == "R":
        from pysmt import typing as T
        if not (1 <= d <= PARAMS.get("qbox", 4)):
            return True
        x = m.Symbol("x", T.REAL)
        build, meaning = INT_OPS[op]
        val = Fraction(xv, d)
        f = build(x, k, m) if "Min" not in op and "Max" not in op and "GE" not in op and "GT" not in op else None
        if f is None:
            return True
        exp = meaning(val, k)
        if twin:
            return False
        got = refeval.evaluate(f, {x: val})
        return same(got, exp)
    w = PARAMS["w"]
    x = m.Symbol("x", env.type_manager.BVType(w))
    build, meaning, cls = BV_OPS[op]
    must_accept = True
    if cls == "val":
        must_accept = 0 <= k < 2 ** w
        kk = k
    elif cls == "sval":
        must_accept = -(2 ** (w - 1)) <= k < 2 ** (w - 1)
        kk = k
    else:
        kk = decode(k, -1, 2 ** w + 1)
        if kk is None:
            return True
        if cls == "idxval":
            must_accept = 0 <= kk < 2 ** w
        elif cls == "idx":
            must_accept = 0 <= kk < w or None      # rotation by >= width: accepted or rejected, both documented somewhere
            if kk < 0:
                must_accept = False
        elif cls == "ext":
            must_accept = 0 <= kk
            if kk > 3:
                return True
        elif cls == "bit":
            must_accept = 0 <= kk < w
        elif cls == "rep":
            must_accept = 1 <= kk
            if kk > 3:
                return True
    try:
        f = build(x, kk, m)
    except Exception:
        if twin:
            return True
        return must_accept is not True
    if must_accept is False:
        return twin         # a literal the sort cannot represent was accepted
    exp = meaning(xv, kk, w)
    if twin:
        return False
    got = refeval.evaluate(f, {x: xv})
    if cls in ("ext", "rep", "bit"):
        # the result width is part of the meaning
        rw = {"ext": w + kk, "rep": w * kk}.get(cls)
        if rw is None:
            rw = 1 if op == "x[k]" else (kk + 1 if op == "x[:k]" else w - kk)
        if f.get_type() != env.type_manager.BVType(rw):
            return False
    return same(got, exp)


def same(got, exp):
    if isinstance(exp, bool) or isinstance(got, bool):
        return isinstance(exp, bool) and isinstance(got, bool) and got == exp
    return got == exp


def h_lit(xv: int, k: int, d: int) -> bool:
    """
    pre: lit_range(xv, k)
    post: _
    """
    return body(xv, k, d, False)


def h_lit_twin(xv: int, k: int, d: int) -> bool:
    """
    pre: lit_range(xv, k)
    post: _
    """
    return body(xv, k, d, True)
