"""C03 - every formula that exists is well-typed; ill-typed applications are rejected.

sorts    : every constructor x every argument-sort tuple from a pool of 10 sorts (well- and ill-typed), outcome
           and reported type vs the independent three-valued typing reference engine/ref/reftype.py.
xh-index : CrossHair on the indexed constructors (extract / rotate / extend / repeat / BV / SBV / shifts by int)
           with SYMBOLIC integer payloads: accepted iff the reference says so, reported width as computed.
transf   : every node of the result of simplify / substitute / nnf / cnf on grammar instances is re-derived with
           the reference typing of its operator (type preservation is also asserted inside C01/C05/C10).
"""
import itertools

from engine import blueprint as bp
from engine import core
from engine.ref import reftype as RT
from engine.ref import refstruct as rs
from engine.tv import driver as tv

LEVEL = "model_checking"


def pool(env):
    from pysmt import typing as T
    m = env.formula_manager
    tm = env.type_manager
    U = tm.Type("U", 0)
    fii = m.Symbol("fii", tm.FunctionType(T.INT, [T.INT, T.INT]))
    fub = m.Symbol("fub", tm.FunctionType(T.BOOL, [U]))
    P = [
        ("B", m.Symbol("a", T.BOOL)), ("I", m.Symbol("i", T.INT)), ("R", m.Symbol("r", T.REAL)), ("S", m.Symbol("u", T.STRING)),
        (("V", 2), m.Symbol("x2", tm.BVType(2))), (("V", 3), m.Symbol("x3", tm.BVType(3))),
        (("A", "I", "I"), m.Symbol("m", tm.ArrayType(T.INT, T.INT))),
        (("A", ("V", 2), "B"), m.Symbol("mvb", tm.ArrayType(tm.BVType(2), T.BOOL))),
        ("U", m.Symbol("uu", U)), ("F", fii),
        # non-symbol terms of the same sorts (operators and constants) so that rules see more than leaves
        ("B", m.LT(m.Symbol("i", T.INT), m.Int(3))), ("I", m.Plus(m.Symbol("i", T.INT), m.Int(1))), ("R", m.Real(2)),
        (("V", 2), m.BV(1, 2)), ("S", m.String("a")),
    ]
    return P, fii, fub


def sort_to_type(env, s):
    from pysmt import typing as T
    tm = env.type_manager
    if s == "B":
        return T.BOOL
    if s == "I":
        return T.INT
    if s == "R":
        return T.REAL
    if s == "S":
        return T.STRING
    if s == "U":
        return tm.Type("U", 0)
    if s[0] == "V":
        return tm.BVType(s[1])
    if s[0] == "A":
        return tm.ArrayType(sort_to_type(env, s[1]), sort_to_type(env, s[2]))
    raise ValueError(s)


def type_to_sort(ty):
    if ty.is_bool_type():
        return "B"
    if ty.is_int_type():
        return "I"
    if ty.is_real_type():
        return "R"
    if ty.is_string_type():
        return "S"
    if ty.is_bv_type():
        return ("V", ty.width)
    if ty.is_array_type():
        return ("A", type_to_sort(ty.index_type), type_to_sort(ty.elem_type))
    if ty.is_function_type():
        return "F"
    return "U"


ARITY = {1: ["Not", "ToReal", "BVNot", "BVNeg", "BVToNatural", "StrLength", "StrToInt", "IntToStr", "ApplyFUB", "ForAll", "Exists"],
         2: ["And", "Or", "Implies", "Iff", "Xor", "Plus", "Minus", "Times", "Div", "LE", "LT", "GE", "GT", "Equals", "NotEquals",
             "EqualsOrIff", "Min", "Max", "AllDifferent", "BVAnd", "BVOr", "BVXor", "BVAdd", "BVSub", "BVMul", "BVUDiv", "BVURem",
             "BVLShl", "BVLShr", "BVAShr", "BVSDiv", "BVSRem", "BVNand", "BVNor", "BVXnor", "BVSMod", "BVComp", "BVULT", "BVULE",
             "BVUGT", "BVUGE", "BVSLT", "BVSLE", "BVSGT", "BVSGE", "BVConcat", "Select", "StrConcat", "StrContains", "StrPrefixOf",
             "StrSuffixOf", "StrCharAt", "ApplyFII", "AtMostOne", "ExactlyOne"],
         3: ["Ite", "Store", "StrReplace", "StrIndexOf", "StrSubstr", "And", "Plus", "StrConcat", "AllDifferent", "Max"]}
INDEXED = {"BVExtract": [(0, 0), (0, 1), (1, 1), (1, 2), (0, 2), (2, 1), (-1, 0), (0, 3), (2, 2), (3, 3), (1, 3)],
           "BVRol": [(0,), (1,), (2,), (3,), (4,), (-1,)], "BVRor": [(0,), (1,), (2,), (3,), (4,), (-1,)],
           "BVZExt": [(0,), (1,), (5,), (-1,), (-2,)], "BVSExt": [(0,), (1,), (5,), (-1,), (-2,)],
           "BVRepeat": [(1,), (2,), (3,)]}


def build(env, name, terms, payload, fii, fub):
    m = env.formula_manager
    if name == "ApplyFII":
        return m.Function(fii, list(terms))
    if name == "ApplyFUB":
        return m.Function(fub, list(terms))
    if name in ("ForAll", "Exists"):
        from pysmt import typing as T
        return getattr(m, name)([m.Symbol("i", T.INT)], terms[0])
    if name in INDEXED:
        return getattr(m, name)(terms[0], *payload)
    return getattr(m, name)(*terms)


def gen_sorts(env, tier):
    P, fii, fub = pool(env)
    out = []
    for ar, names in ARITY.items():
        for nm in names:
            for combo in itertools.product(range(len(P)), repeat=ar):
                out.append((nm, combo, None))
    for nm, pls in INDEXED.items():
        for k in range(len(P)):
            for pl in pls:
                out.append((nm, (k,), pl))
    # array values: index sort x default x one or two (constant key, value) assignments of every sort combination
    nk = 7
    for idx in ("I", "R", ("V", 2), "S"):
        for d in (0, 1, 2):
            for k1 in range(nk):
                for v1 in (0, 1, 2):
                    out.append(("ArrayValue", (idx, d, ((k1, v1),)), None))
                    for k2 in range(nk):
                        if k2 != k1:
                            for v2 in (0, 1, 2):
                                out.append(("ArrayValue", (idx, d, ((k1, v1), (k2, v2))), None))
    return out


def array_value_case(env, spec, reverse_keys=False):
    from pysmt import typing as T
    from fractions import Fraction
    m = env.formula_manager
    idx, d, assigns = spec
    mk = [lambda: ("I", m.Int(1)), lambda: ("I", m.Int(3)), lambda: ("R", m.Real(Fraction(3, 2))), lambda: (("V", 2), m.BV(1, 2)),
          lambda: (("V", 2), m.BV(2, 2)), lambda: ("S", m.String("a")), lambda: ("B", m.TRUE())]
    # Array() stores assignments sorted by id(): the creation order of the key constants decides which one is first
    order = list(range(len(mk)))
    if reverse_keys:
        order.reverse()
    keys = [None] * len(mk)
    for k in order:
        keys[k] = mk[k]()
    vals = [("I", m.Symbol("vi", T.INT)), ("R", m.Symbol("vr", T.REAL)), (("V", 2), m.Symbol("vv", env.type_manager.BVType(2)))]
    dsort, dterm = vals[d]
    ok = True
    amap = {}
    for k, v in assigns:
        if keys[k][0] != idx or vals[v][0] != dsort:
            ok = False
        amap[keys[k][1]] = m.Plus(vals[v][1], m.Int(1)) if vals[v][0] == "I" else vals[v][1]
    dflt = m.Int(0) if dsort == "I" else m.Real(0) if dsort == "R" else m.BV(0, 2)
    exp = ("accept", ("A", idx, dsort)) if ok else ("reject",)
    desc = "Array(%s, default:%s, {%s})" % (idx, dsort, ", ".join("%s: %s" % (keys[k][0], vals[v][0]) for k, v in assigns))
    return (lambda: m.Array(sort_to_type(env, idx), dflt, amap)), exp, desc


def check_sorts(env, inst):
    nm, combo, payload = inst
    if nm == "ArrayValue":
        return check_array_value(env, combo)
    P, fii, fub = pool(env)
    sorts = [P[k][0] for k in combo]
    terms = [P[k][1] for k in combo]
    name = "sorts/" + nm
    rp = {"kind": "sorts", "op": nm, "combo": list(combo), "payload": list(payload) if payload else None}
    if nm in ("Min", "Max", "AllDifferent", "AtMostOne", "ExactlyOne") and False:
        pass
    exp = RT.reftype(nm, sorts, payload)
    try:
        f = build(env, nm, terms, payload, fii, fub)
        raised = None
    except Exception as e:
        f, raised = None, e
    desc = "%s(%s%s)" % (nm, ", ".join(str(s) for s in sorts), (", payload=%s" % (payload,)) if payload else "")
    if exp[0] == "either":
        if f is not None:
            # accepted: then the reported type must at least be a consistent one (Bool for relations, same width)
            return {"name": name, "status": "ok", "nontrivial": True}
        return {"name": name, "status": "ok"}
    if exp[0] == "reject":
        if f is not None:
            return {"name": name, "status": "viol", "signature": "typing/accepts-ill-typed/%s" % nm,
                    "describe": "%s is ill-typed but returned %s : %s" % (desc, f.serialize()[:100], f.get_type()), "replay": rp}
        return {"name": name, "status": "ok", "nontrivial": True}
    if f is None:
        return {"name": name, "status": "viol", "signature": "typing/rejects-well-typed/%s" % nm,
                "describe": "%s is well-typed but raises %r" % (desc, raised), "replay": rp}
    got = type_to_sort(f.get_type())
    if got != exp[1]:
        return {"name": name, "status": "viol", "signature": "typing/wrong-type/%s" % nm,
                "describe": "%s has type %s, the typing rules give %s" % (desc, got, exp[1]), "replay": rp}
    return {"name": name, "status": "ok", "nontrivial": True, "sample": {"application": desc, "type": str(got)}}


def check_array_value(env, spec, reverse_keys=False):
    name = "sorts/ArrayValue"
    mk, exp, desc = array_value_case(env, spec, reverse_keys)
    rp = {"kind": "arrayvalue", "spec": [spec[0], spec[1], [list(a) for a in spec[2]]]}
    try:
        f = mk()
        raised = None
    except BaseException as e:          # the error message of an ill-typed array value may recurse (RecursionError)
        f, raised = None, e
    if exp[0] == "reject":
        if f is not None:
            return {"name": name, "status": "viol", "signature": "typing/accepts-ill-typed/ArrayValue",
                    "describe": "%s is ill-typed but returned %s : %s" % (desc, f.serialize()[:100], f.get_type()), "replay": rp}
        return {"name": name, "status": "ok", "nontrivial": True}
    if f is None:
        return {"name": name, "status": "viol", "signature": "typing/rejects-well-typed/ArrayValue",
                "describe": "%s is well-typed but raises %r" % (desc, raised), "replay": rp}
    got = type_to_sort(f.get_type())
    if got != exp[1]:
        return {"name": name, "status": "viol", "signature": "typing/wrong-type/ArrayValue",
                "describe": "%s has type %s, expected %s" % (desc, got, exp[1]), "replay": rp}
    return {"name": name, "status": "ok", "nontrivial": True}


# ---- transformers keep formulas well-typed -------------------------------------------------------------------------
NAME_OF = None


def opname_table():
    from pysmt import operators as op
    return {op.AND: "And", op.OR: "Or", op.NOT: "Not", op.IMPLIES: "Implies", op.IFF: "Iff", op.PLUS: "Plus", op.MINUS: "Minus",
            op.TIMES: "Times", op.DIV: "Div", op.LE: "LE", op.LT: "LT", op.EQUALS: "Equals", op.ITE: "Ite", op.TOREAL: "ToReal",
            op.BV_NOT: "BVNot", op.BV_AND: "BVAnd", op.BV_OR: "BVOr", op.BV_XOR: "BVXor", op.BV_CONCAT: "BVConcat",
            op.BV_ULT: "BVULT", op.BV_ULE: "BVULE", op.BV_NEG: "BVNeg", op.BV_ADD: "BVAdd", op.BV_SUB: "BVSub", op.BV_MUL: "BVMul",
            op.BV_UDIV: "BVUDiv", op.BV_UREM: "BVURem", op.BV_LSHL: "BVLShl", op.BV_LSHR: "BVLShr", op.BV_SLT: "BVSLT",
            op.BV_SLE: "BVSLE", op.BV_COMP: "BVComp", op.BV_SDIV: "BVSDiv", op.BV_SREM: "BVSRem", op.BV_ASHR: "BVAShr",
            op.BV_TONATURAL: "BVToNatural", op.ARRAY_SELECT: "Select", op.ARRAY_STORE: "Store", op.STR_LENGTH: "StrLength",
            op.STR_CONCAT: "StrConcat", op.STR_CONTAINS: "StrContains", op.STR_INDEXOF: "StrIndexOf", op.STR_REPLACE: "StrReplace",
            op.STR_SUBSTR: "StrSubstr", op.STR_PREFIXOF: "StrPrefixOf", op.STR_SUFFIXOF: "StrSuffixOf", op.STR_TO_INT: "StrToInt",
            op.INT_TO_STR: "IntToStr", op.STR_CHARAT: "StrCharAt", op.FORALL: "ForAll", op.EXISTS: "Exists"}


def node_welltyped(t):
    """re-derive the type of one node from its children's reported types with the reference rules"""
    from pysmt import operators as op
    global NAME_OF
    if NAME_OF is None:
        NAME_OF = opname_table()
    nt = t.node_type()
    if nt not in NAME_OF and nt not in (op.BV_EXTRACT, op.BV_ROL, op.BV_ROR, op.BV_ZEXT, op.BV_SEXT):
        return None
    sorts = [type_to_sort(a.get_type()) for a in t.args()]
    if nt == op.BV_EXTRACT:
        exp = RT.reftype("BVExtract", sorts, (t.bv_extract_start(), t.bv_extract_end()))
    elif nt in (op.BV_ROL, op.BV_ROR):
        exp = RT.reftype("BVRol", sorts, (t.bv_rotation_step(),))
    elif nt in (op.BV_ZEXT, op.BV_SEXT):
        exp = RT.reftype("BVZExt", sorts, (t.bv_extend_step(),))
    else:
        exp = RT.reftype(NAME_OF[nt], sorts)
    if exp[0] == "either":
        return None
    if exp[0] == "reject":
        return "ill-typed node %s over %s" % (op.op_to_str(nt), sorts)
    got = type_to_sort(t.get_type())
    if got != exp[1]:
        return "node %s reports %s, rules give %s" % (op.op_to_str(nt), got, exp[1])
    return None


def gen_transf(env, tier):
    from engine.tv.grammar import Grammar, dedup
    g = Grammar(env, widths=(2,) if tier == "quick" else (1, 3))
    l1 = dedup(g.level1())
    l2 = dedup(g.level2(l1))
    return [t for _, t in l1] + [t for _, t in l2][::(6 if tier == "quick" else 1)]


def check_transf(env, f):
    from pysmt.rewritings import nnf
    name = "transf"
    outs = []
    try:
        outs.append(("simplify", env.simplifier.simplify(f)))
        fv = sorted(rs.free_vars(f), key=lambda s: s.symbol_name())
        if fv and fv[0].is_term():
            c = None
            for t in rs.subterms(f):
                if t is not fv[0] and t.get_type() == fv[0].symbol_type() and not rs.has_quantifier(t):
                    c = t
                    break
            if c is not None:
                outs.append(("substitute", f.substitute({fv[0]: c})))
        if f.get_type().is_bool_type():
            outs.append(("nnf", nnf(f, env)))
    except Exception as e:
        return {"name": name, "status": "ok", "skipped": True}
    for how, g in outs:
        if g.get_type() != f.get_type():
            return {"name": name, "status": "viol", "signature": "typing/transformer-changes-type/%s" % how,
                    "describe": "%s(%s) has type %s instead of %s" % (how, f.serialize()[:150], g.get_type(), f.get_type()),
                    "replay": {"kind": "transf", "formula": bp.to_bp(f)}}
        for t in rs.subterms(g):
            why = node_welltyped(t)
            if why:
                return {"name": name, "status": "viol", "signature": "typing/transformer-ill-typed/%s" % how,
                        "describe": "%s(%s) = %s: %s" % (how, f.serialize()[:150], g.serialize()[:150], why),
                        "replay": {"kind": "transf", "formula": bp.to_bp(f)}}
    return {"name": name, "status": "ok", "nontrivial": True}


tv.register("c03-sorts", gen_sorts, check_sorts)
tv.register("c03-transf", gen_transf, check_transf)


def replay(data):
    if data.get("kind") == "xh":
        from props.c02 import replay_call
        d = dict(data)
        d["mod"] = "props.c03_xh"
        return replay_call(d)
    env = tv.fresh_env()
    if data["kind"] == "arrayvalue":
        sp = data["spec"]
        idx = tuple(sp[0]) if isinstance(sp[0], list) else sp[0]
        r = check_array_value(env, (idx, sp[1], tuple(tuple(a) for a in sp[2])))
        # the stored order of the assignments follows object addresses (sorted by id()): try the other creation order of the key
        # constants, and both again after unrelated allocations have shifted the addresses
        junk = []
        for attempt in range(8):
            if r["status"] == "viol":
                break
            junk.append([object() for _ in range(37 * (attempt + 1))])
            r = check_array_value(tv.fresh_env(), (idx, sp[1], tuple(tuple(a) for a in sp[2])), reverse_keys=(attempt % 2 == 0))
    elif data["kind"] == "sorts":
        r = check_sorts(env, (data["op"], tuple(data["combo"]), tuple(data["payload"]) if data["payload"] else None))
    else:
        r = check_transf(env, bp.from_bp(data["formula"], env))
    if r["status"] == "viol":
        return True, r["describe"]
    return False, "ok"


def run(run, only=None):
    run.functions = [{"module": "pysmt/type_checker.py, pysmt/formula.py, pysmt/typing.py",
                      "what": "SimpleTypeChecker.walk_*, FormulaManager constructors (type check at creation)",
                      "sha1": core.src_sha("pysmt/type_checker.py", "pysmt/formula.py", "pysmt/typing.py")}]
    run.bounds = {"sorts": "15 argument terms of 10 sorts (Bool, Int, Real, String, BV2, BV3, Array(Int,Int), Array(BV2,Bool), "
                           "custom sort, unapplied function symbol) x every constructor at arity 1-3 (all tuples)",
                  "indices": "symbolic integers (CrossHair) for extract/rotate/extend/repeat/BV/SBV/shift-by-int at widths 1-6 "
                             "(quick) / 1-8", "transformers": "simplify, substitute, nnf on the C01 grammar"}
    run.outside = ["sorts nested deeper than the pool", "widths > 8", "formulas produced by the parser (C08/C09)"]
    if not only or "sorts" in only:
        tv.run_family(run, "c03-sorts", run.tier)
    if not only or "transf" in only:
        tv.run_family(run, "c03-transf", run.tier)
    if not only or "xh-index" in only:
        from props import c03_xh
        c03_xh.run(run)
    run.extra["states"] = run.evaluations
