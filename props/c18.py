"""C18 - optimisation returns the true optimum and restores the solver (engine XH over a brute-force oracle)."""
from engine import core

LEVEL = "model_checking"

SINGLE = ["min-x", "max-x", "min-negx", "max-negx", "min-x+y", "max-x+y", "minmax", "maxmin", "maxsmt", "maxsmt-inc"]
MULTI = ["two", "two-same", "two-sum"]


def replay(data):
    from props.c02 import replay_call
    d = dict(data)
    d["mod"] = "props.c18_xh"
    return replay_call(d)


def jobs_for(tier):
    t = 300.0 if tier == "quick" else 1200.0
    sorts = [("bvu", 2), ("bvsigned", 2), ("int", 0)] if tier == "quick" else [("bvu", 2), ("bvsigned", 2), ("bvu", 3), ("bvsigned", 3), ("int", 0)]
    singles = ["min-x", "max-x", "min-negx", "max-x+y", "minmax", "maxsmt"] if tier == "quick" else SINGLE
    multis = ["two", "two-same"] if tier == "quick" else MULTI
    jobs = []
    quick_sel = {"bvu": (["min-x", "max-x"], []), "int": (["min-x", "max-x+y", "maxsmt", "maxsmt-inc"], ["two"])}
    for srt, w in sorts:
        if tier == "quick" and srt in quick_sel:
            singles, multis = quick_sel[srt]
        elif tier == "quick":
            singles, multis = ["min-x", "max-x", "min-negx", "max-x+y", "minmax", "maxsmt"], ["two", "two-same"]
        for g in singles:
            for strat in ("linear", "binary"):
                for mix in ("sua", "inc"):
                    jobs.append(("props.c18_xh", "h_opt", t, {"kind": "%s/%s" % (srt, g), "w": w, "strategy": strat, "mixin": mix,
                                                              "mode": "single", "name": "opt/%s%s/%s/%s/%s" % (srt, w or "", g, strat, mix)}))
        if tier == "quick" and srt == "bvsigned":
            # the remaining goal kinds, two (strategy, mixin) combinations each
            for g in ("maxmin", "max-negx", "min-x+y"):
                for strat, mix in (("linear", "sua"), ("binary", "inc")):
                    jobs.append(("props.c18_xh", "h_opt", t, {"kind": "%s/%s" % (srt, g), "w": w, "strategy": strat, "mixin": mix,
                                                              "mode": "single", "name": "opt/%s%s/%s/%s/%s" % (srt, w or "", g, strat, mix)}))
        for g in multis:
            for mix in ("sua", "inc"):
                for strat in ("linear", "binary"):
                    for mode in ("boxed", "lex"):
                        jobs.append(("props.c18_xh", "h_opt", t, {"kind": "%s/%s" % (srt, g), "w": w, "strategy": strat, "mixin": mix,
                                                                  "mode": mode, "name": "opt/%s%s/%s/%s/%s/%s" % (srt, w or "", g, mode, strat, mix)}))
                jobs.append(("props.c18_xh", "h_opt", t, {"kind": "%s/%s" % (srt, g), "w": w, "strategy": "linear", "mixin": mix,
                                                          "mode": "pareto", "name": "opt/%s%s/%s/pareto/%s" % (srt, w or "", g, mix)}))
    for goal in ("min", "max"):
        jobs.append(("props.c18_xh", "h_ival", 120.0, {"goal": goal, "name": "interval/%s" % goal}))
    return jobs


def run(run, only=None):
    from props.c02 import run_xh_family, twin_check
    run.functions = [{"module": "pysmt/optimization/optimizer.py, pysmt/optimization/goal.py",
                      "what": "OptSearchInterval, OptComparationFunctions, ExternalOptimizerMixin.optimize/boxed_optimize/"
                              "lexicographic_optimize/pareto_optimize, SUAOptimizerMixin, IncrementalOptimizerMixin, goal classes",
                      "sha1": core.src_sha("pysmt/optimization/optimizer.py", "pysmt/optimization/goal.py", "pysmt/formula.py")}]
    run.bounds = {"constraint system": "lo <= x <= hi, x != e, ylo <= y with every constant ranging over the whole domain "
                                       "(BV(2) unsigned/signed, Int in [-2,2]; thorough adds BV(3))",
                  "objectives": "x, ~x / -x, x+y, min-max, max-min, weighted soft clauses (weights 1..3), two-objective sets",
                  "algorithms": "{linear, binary} x {assumption-based, incremental} x {single, boxed, lexicographic, pareto}",
                  "oracle": "exhaustive enumerator; returns the first or the last model in enumeration order (symbolic choice)",
                  "interval kernel": "Int objective, bounds and optimum symbolic in [-40, 40], open/closed sides, None bounds"}
    run.outside = ["real-valued objectives with bisection (excluded by the property)", "domains larger than 8 values per variable",
                   "more than 2 objectives", "native optimisers"]
    jobs = jobs_for(run.tier)
    if only:
        jobs = [j for j in jobs if any(o in j[3]["name"] for o in only)]

    def describe(p, r):
        return "%s with constants %r: result is not the true optimum / stack not restored" % (p["name"], r["args"])
    run_xh_family(run, "xh-opt", jobs, describe, lambda p, a: "opt/%s/%s" % (p.get("mode", "interval"), p.get("kind", p.get("goal"))), "xh")
    twin_check(run, "xh-opt", jobs[::11])
    run.extra["states"] = len(jobs) * 256
