"""C04 - hash-consing: one object per structure, faithful accessors, faithful copies.

xh-const/xh-pair : CrossHair with symbolic constant values and payload integers (props/c04_xh.py).
routes           : every grammar formula rebuilt through a second construction route (blueprint -> create_node, in a
                   different order, interleaved with unrelated constructions) must be the very same object, and two
                   grammar formulas are the same object only if their independent structural keys are equal.
normalize        : formulas of two source environments re-created inside a third: structurally identical copy that
                   shares no object with its source and is the object a native construction in the target yields.
floats           : float spellings of Real constants on a listed concrete set (CrossHair models floats as reals: not
                   symbolic, stated as such), in every construction order.
"""
import itertools
from fractions import Fraction

from engine import blueprint as bp
from engine import core
from engine.ref import refstruct as rs
from engine.tv import driver as tv

LEVEL = "model_checking"


def gen_routes(env, tier):
    from engine.tv.grammar import Grammar, dedup
    g = Grammar(env, widths=(2,) if tier == "quick" else (1, 3))
    l1 = dedup(g.level1())
    l2 = dedup(g.level2(l1))
    forms = [t for _, t in l1] + [t for _, t in l2][::(5 if tier == "quick" else 1)]
    return [("route", k) for k in range(0, len(forms), 1)]


_FORMS = {}


def forms_of(env, tier):
    key = id(env)
    if key not in _FORMS:
        from engine.tv.grammar import Grammar, dedup
        g = Grammar(env, widths=(2,) if tier == "quick" else (1, 3))
        l1 = dedup(g.level1())
        l2 = dedup(g.level2(l1))
        fs = [t for _, t in l1] + [t for _, t in l2][::(5 if tier == "quick" else 1)]
        keys = {}
        dup = None
        for f in fs:
            k = rs.skey(f)
            if k in keys and keys[k] is not f:
                dup = (keys[k], f)
            keys[k] = f
        _FORMS[key] = (fs, keys, dup)
    return _FORMS[key]


TIER = {"v": "quick"}


def check_route(env, inst):
    _, k = inst
    fs, keys, dup = forms_of(env, TIER["v"])
    name = "route"
    if k == 0 and dup is not None:
        return {"name": name, "status": "viol", "signature": "hashcons/duplicate-structure",
                "describe": "two distinct objects with the same structure: %s" % dup[0].serialize()[:200],
                "replay": {"kind": "route", "formula": bp.to_bp(dup[0])}}
    if k >= len(fs):
        return {"name": name, "status": "ok", "skipped": True}
    f = fs[k]
    # second route: rebuild from the blueprint (children first, through create_node) after unrelated constructions
    m = env.formula_manager
    m.And(m.Symbol("noise%d" % (k % 7)), m.Symbol("noise"))
    g = bp.from_bp(bp.to_bp(f), env)
    rp = {"kind": "route", "formula": bp.to_bp(f)}
    if g is not f:
        return {"name": name, "status": "viol", "signature": "hashcons/second-route/%s" % rs.shape(f),
                "describe": "%s rebuilt from its blueprint is a different object" % f.serialize()[:200], "replay": rp}
    # accessors vs blueprint
    if rs.skey(g) != rs.skey(f):
        return {"name": name, "status": "viol", "signature": "hashcons/accessors", "describe": "keys differ", "replay": rp}
    # third route: the public constructors (reference rebuild used for substitution) on the same children
    from engine.ref import refsubst
    try:
        h = refsubst.rebuild(m, f, list(f.args())) if f.args() else f
    except Exception:
        h = f
    if h is not f and rs.skey(h) == rs.skey(f):
        return {"name": name, "status": "viol", "signature": "hashcons/constructor-route/%s" % rs.shape(f),
                "describe": "%s rebuilt through its constructor has the same structure but is another object" % f.serialize()[:200],
                "replay": rp}
    return {"name": name, "status": "ok", "nontrivial": True}


# ---- normalize ------------------------------------------------------------------------------------------------------------
def gen_norm(env, tier):
    return list(range(60 if tier == "quick" else 400))


def small_forms(env, variant):
    from engine.tv.grammar import Grammar, dedup
    g = Grammar(env, widths=(2,))
    l1 = [t for _, t in dedup(g.level1())]
    return l1[variant::97] + [l1[(variant * 13) % len(l1)]]


def native_copy(C, f, memo=None):
    """re-create f inside environment C through the public constructors (symbols and sorts by name)"""
    from pysmt import operators as op
    from engine.ref import refsubst
    if memo is None:
        memo = {}
    if f in memo:
        return memo[f]
    m = C.formula_manager
    nt = f.node_type()
    if nt == op.SYMBOL:
        r = m.Symbol(f.symbol_name(), bp.bp_to_ty(bp.ty_to_bp(f.symbol_type()), C))
    elif nt in op.CONSTANTS:
        r = bp.from_bp(bp.to_bp(f), C)
    else:
        kids = [native_copy(C, a, memo) for a in f.args()]
        if nt == op.FUNCTION:
            r = m.Function(native_copy(C, f.function_name(), memo), kids)
        elif nt in (op.FORALL, op.EXISTS):
            vs = [native_copy(C, v, memo) for v in f.quantifier_vars()]
            r = (m.ForAll if nt == op.FORALL else m.Exists)(vs, kids[0])
        elif nt == op.ARRAY_VALUE:
            r = m.Array(bp.bp_to_ty(bp.ty_to_bp(f.array_value_index_type()), C), kids[0], dict(zip(kids[1::2], kids[2::2])))
        else:
            r = refsubst.rebuild(m, f, kids)
    memo[f] = r
    return r


def check_norm(env_unused, k):
    """A, B: two source environments with different construction histories; C: target.  Interleaved normalisation."""
    from pysmt.environment import Environment, pop_env
    name = "normalize"
    A, B, C = tv.fresh_env(), tv.fresh_env(), tv.fresh_env()
    try:
        # different histories -> the same node id denotes different formulas in A and B
        B.formula_manager.Symbol("pad%d" % k)
        B.formula_manager.Int(k + 100)
        fa = small_forms(A, k % 97)
        fb = small_forms(B, (k * 7 + 3) % 97)
        mC = C.formula_manager
        native = mC.And(mC.Symbol("a"), mC.Symbol("b"))       # native construction in the target, interleaved
        # every third scenario: the target already owns some of the names with ANOTHER sort; a formula mentioning one of them has
        # no structurally identical copy there, so normalize must refuse it
        clash = set()
        if k % 3 == 2:
            from pysmt import typing as T
            names = sorted(set(s.symbol_name() for f in fa + fb for s in rs.all_symbols(f)) - {"a", "b"})
            for nm in names[(k // 3) % 4::4]:
                src_ty = [s.symbol_type() for f in fa + fb for s in rs.all_symbols(f) if s.symbol_name() == nm][0]
                if src_ty.is_int_type():
                    other = T.REAL
                elif src_ty.is_real_type():
                    other = T.INT
                elif src_ty.is_bv_type():
                    other = C.type_manager.BVType(src_ty.width * 2)
                elif src_ty.is_bool_type():
                    other = T.INT
                else:
                    other = T.BOOL
                mC.Symbol(nm, other)
                clash.add(nm)
        for f, src in itertools.chain(*zip([(x, A) for x in fa], [(x, B) for x in fb])):
            rp = {"kind": "norm", "k": k}
            if clash & set(s.symbol_name() for s in rs.all_symbols(f)):
                try:
                    g = mC.normalize(f)
                except Exception:
                    continue
                return {"name": name, "status": "viol", "signature": "normalize/name-clash-accepted",
                        "describe": "normalize(%s) into an environment where %s has another sort returned %s instead of refusing"
                                    % (f.serialize()[:150], sorted(clash & set(s.symbol_name() for s in rs.all_symbols(f))),
                                       g.serialize()[:150]), "replay": rp}
            try:
                g = mC.normalize(f)
            except Exception as e:
                return {"name": name, "status": "viol", "signature": "normalize/raises:%s" % type(e).__name__,
                        "describe": "normalize(%s) raises %r" % (f.serialize()[:150], e), "replay": rp}
            if rs.skey(g) != rs.skey(f):
                return {"name": name, "status": "viol", "signature": "normalize/structure",
                        "describe": "normalize(%s) = %s is not structurally identical" % (f.serialize()[:150], g.serialize()[:150]), "replay": rp}
            src_ids = set(id(t) for t in rs.subterms(f))
            if any(id(t) in src_ids for t in rs.subterms(g)):
                return {"name": name, "status": "viol", "signature": "normalize/shares-objects",
                        "describe": "normalize(%s) shares formula objects with its source environment" % f.serialize()[:150], "replay": rp}
            if g not in mC:
                return {"name": name, "status": "viol", "signature": "normalize/not-in-target",
                        "describe": "normalize(%s) does not belong to the target manager" % f.serialize()[:150], "replay": rp}
            if native_copy(C, f) is not g:
                return {"name": name, "status": "viol", "signature": "normalize/not-the-native-object",
                        "describe": "normalize(%s) is not the object a native construction yields" % f.serialize()[:150], "replay": rp}
        own = mC.normalize(native)
        if own is not native:
            return {"name": name, "status": "viol", "signature": "normalize/own-formula",
                    "describe": "normalising a formula of the target itself returned another object", "replay": {"kind": "norm", "k": k}}
    finally:
        pop_env()
        pop_env()
        pop_env()
    return {"name": name, "status": "ok", "nontrivial": True}


# ---- float spellings (concrete set; not symbolic) ---------------------------------------------------------------------------------
FLOATS = [0.5, 2.0, 0.1, 1e22, 1.0 / 3.0, 2.675, 1e-7, -0.1, 3.0]


def gen_floats(env, tier):
    return [(v, order) for v in FLOATS for order in range(4)]


def check_float(env_unused, inst):
    from pysmt.environment import pop_env
    v, order = inst
    name = "float"
    exact = Fraction(*v.as_integer_ratio())
    env = tv.fresh_env()
    try:
        m = env.formula_manager
        spell = [lambda: m.Real(v), lambda: m.Real(exact), lambda: m.Real((exact.numerator, exact.denominator))]
        if order == 1:
            spell = [spell[1], spell[0], spell[2]]
        elif order == 2:
            spell = [spell[2], spell[1], spell[0]]
        elif order == 3:
            m.Real(Fraction(1, 10))
            m.Real(Fraction(1, 3))
        nodes = [s() for s in spell]
        rp = {"kind": "float", "v": repr(v), "order": order}
        for n in nodes:
            if Fraction(n.constant_value()) != exact:
                return {"name": name, "status": "viol", "signature": "hashcons/float-value",
                        "describe": "Real(<float %r>) reports %s, built from %s (order %d)" % (v, n.constant_value(), exact, order), "replay": rp}
        if not (nodes[0] is nodes[1] and nodes[1] is nodes[2]):
            return {"name": name, "status": "viol", "signature": "hashcons/float-identity",
                    "describe": "spellings of %r are different objects (order %d)" % (v, order), "replay": rp}
        if exact.denominator == 1 and m.Real(int(exact)) is not nodes[0]:
            return {"name": name, "status": "viol", "signature": "hashcons/float-int", "describe": "Real(%r) vs Real(int)" % v, "replay": rp}
    finally:
        pop_env()
    return {"name": name, "status": "ok", "nontrivial": True}


tv.register("c04-routes", gen_routes, check_route)
tv.register("c04-normalize", gen_norm, check_norm)
tv.register("c04-floats", gen_floats, check_float)


def replay(data):
    if data.get("kind") == "xh":
        from props.c02 import replay_call
        d = dict(data)
        d["mod"] = "props.c04_xh"
        return replay_call(d)
    env = tv.fresh_env()
    if data["kind"] == "norm":
        r = check_norm(env, data["k"])
    elif data["kind"] == "float":
        r = check_float(env, (float(data["v"]), data["order"]))
    else:
        f = bp.from_bp(data["formula"], env)
        g = bp.from_bp(bp.to_bp(f), env)
        if g is not f:
            return True, "rebuilt formula is a different object"
        return False, "same object"
    if r["status"] == "viol":
        return True, r["describe"]
    return False, "ok"


def run(run, only=None):
    from props import c04_xh
    from props.c02 import run_xh_family, twin_check
    TIER["v"] = run.tier
    run.functions = [{"module": "pysmt/formula.py, pysmt/fnode.py, pysmt/typing.py, pysmt/constants.py",
                      "what": "FormulaManager.create_node/Int/Real/String/BV/SBV/Array/normalize, FNode accessors, "
                              "PySMTType.__eq__/__hash__, FormulaContextualizer",
                      "sha1": core.src_sha("pysmt/formula.py", "pysmt/fnode.py", "pysmt/typing.py", "pysmt/constants.py",
                                           "pysmt/walkers/identitydag.py")}]
    run.bounds = {"constants": "Int unbounded; BV widths 1,2,4 (quick) / 1-6 incl. string spellings; rationals in the +-2/+-3 "
                               "box; strings of length <= 2/3", "pairs": "rotate/extend/extract applications with symbolic "
                  "payload integers, both construction orders", "routes": "C01 grammar instances rebuilt through blueprint "
                  "and constructor routes", "normalize": "two source environments with different histories into one target",
                  "floats": "concrete set %s in 4 construction orders (not symbolic)" % FLOATS}
    run.outside = ["float spellings as symbolic values (CrossHair floats are reals)", "mpz/mpq back-ends"]
    if not only or "xh" in only:
        jobs = c04_xh.jobs(run.tier)

        def describe(p, r):
            return "hash-consing obligation %s violated for %r" % (p["name"], r["args"])
        run_xh_family(run, "xh-hashcons", jobs, describe, lambda p, a: "hashcons/xh/%s" % p["kind"], "xh")
        twin_check(run, "xh-hashcons", jobs[::3])
    for fam in ("routes", "normalize", "floats"):
        if only and fam not in only:
            continue
        tv.run_family(run, "c04-" + fam, run.tier)
    run.extra["states"] = run.evaluations
