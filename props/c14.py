"""C14 - results do not depend on what the environment was used for before.

xh-step  : CrossHair inductive step over the persistent state (props/c14_xh.py): symbolic subset of earlier calls.
spelling : value-keyed constant caches: C(b) after C(a), for Python spellings a == b (int / bool / float / Fraction /
           pair), must behave like C(b) in a fresh environment (same payload and type, same accept/reject outcome).
foreign  : formulas of a second environment analysed / normalised by an environment that already used its own
           formulas (node ids coincide across managers).
"""
from fractions import Fraction

from engine import core
from engine.ref import refstruct as rs
from engine.tv import driver as tv

LEVEL = "model_checking"


def spellings():
    vals = []
    for v in (0, 1, 2, -3):
        sp = [v, float(v), Fraction(v), (v, 1)]
        if v in (0, 1):
            sp.append(bool(v))
        vals.append((v, sp))
    vals.append(("half", [0.5, Fraction(1, 2), (1, 2), (2, 4)]))
    return vals


def gen_spelling(env, tier):
    out = []
    for ctor in ("Int", "Real"):
        for v, sp in spellings():
            for i, a in enumerate(sp):
                for j, b in enumerate(sp):
                    out.append((ctor, repr(v), i, j))
    for a in ("ab", ""):
        out.append(("String", a, 0, 0))
    return out


def outcome(env, ctor, val):
    try:
        n = getattr(env.formula_manager, ctor)(val)
    except Exception as e:
        return ("reject", type(e).__name__)
    return ("accept", n.node_type(), str(n.constant_value()), type(n.constant_value()).__name__, str(n.get_type()))


def check_spelling(env_unused, inst):
    from pysmt.environment import pop_env
    ctor, vrepr, i, j = inst
    name = "spelling/%s" % ctor
    if ctor == "String":
        return {"name": name, "status": "ok"}
    sp = dict((repr(v), s) for v, s in spellings())[vrepr]
    a, b = sp[i], sp[j]
    e1 = tv.fresh_env()
    try:
        outcome(e1, ctor, a)
        got = outcome(e1, ctor, b)
    finally:
        pop_env()
    e2 = tv.fresh_env()
    try:
        exp = outcome(e2, ctor, b)
    finally:
        pop_env()
    if got != exp:
        return {"name": name, "status": "viol", "signature": "history/constant-cache/%s" % ctor,
                "describe": "%s(%r) after %s(%r) gives %s, in a fresh environment %s" % (ctor, b, ctor, a, got, exp),
                "replay": {"kind": "spelling", "inst": list(inst)}}
    return {"name": name, "status": "ok", "nontrivial": True, "sample": {"first": "%s(%r)" % (ctor, a), "then": "%s(%r)" % (ctor, b), "outcome": str(got)}}


def gen_foreign(env, tier):
    return list(range(12 if tier == "quick" else 60))


def check_foreign(env_unused, k):
    """E analyses its own formulas, then formulas of another environment F whose node ids coincide."""
    from pysmt.environment import pop_env
    from props import c14_xh
    name = "foreign"
    E = tv.fresh_env()
    try:
        UE = c14_xh.universe(E)
        own = [UE["f1"], UE["f2"], UE["f3"], UE["f4"], UE["strlen"]]
        for f in own:
            E.fvo.get_free_variables(f)
            E.qfo.is_qf(f)
            E.ao.get_atoms(f) if f.get_type().is_bool_type() else None
            E.typeso.get_types(f)
            E.theoryo.get_theory(f)
            E.formula_manager.normalize(f)
        F = tv.fresh_env()
        try:
            from pysmt import typing as T
            mF = F.formula_manager
            p, q, c = mF.Symbol("p%d" % k), mF.Symbol("q"), mF.Symbol("c")
            n = mF.Symbol("n", T.INT)
            forms = [mF.And(mF.Implies(p, mF.Not(q)), mF.Or(c, p)), mF.Exists([n], mF.LT(n, mF.Plus(n, mF.Int(k)))),
                     mF.Iff(p, mF.LT(n, mF.Int(k + 1)))]
            for _ in range(k % 5):
                mF.Symbol("pad%d" % _)
            results_F = [(rs.skey(f), sorted(s.symbol_name() for s in rs.free_vars(f)), not rs.has_quantifier(f)) for f in forms]
        finally:
            pop_env()
        for f, (sk, fv, qf) in zip(forms, results_F):
            try:
                g = E.formula_manager.normalize(f)
                E.fvo.get_free_variables(g)
            except Exception as e:
                return viol(name, "history/foreign/raises", "normalize(%s) in a used environment raises %r" % (f, e), k)
            if rs.skey(g) != sk:
                return viol(name, "history/foreign/normalize", "normalize(%s) in a used environment gives %s" % (f, g), k)
            if sorted(s.symbol_name() for s in E.fvo.get_free_variables(g)) != fv or E.qfo.is_qf(g) != qf:
                return viol(name, "history/foreign/analysis", "analyses of the normalised copy of %s are wrong" % f, k)
    finally:
        pop_env()
    return {"name": name, "status": "ok", "nontrivial": True}


def viol(name, sig, describe, k):
    return {"name": name, "status": "viol", "signature": sig, "describe": describe, "replay": {"kind": "foreign", "k": k}}


tv.register("c14-spelling", gen_spelling, check_spelling)
tv.register("c14-foreign", gen_foreign, check_foreign)


def replay(data):
    if data.get("kind") == "xh":
        from props.c02 import replay_call
        d = dict(data)
        d["mod"] = "props.c14_xh"
        return replay_call(d)
    if data["kind"] == "spelling":
        r = check_spelling(None, tuple(data["inst"]))
    else:
        r = check_foreign(None, data["k"])
    if r["status"] == "viol":
        return True, r["describe"]
    return False, "ok"


def run(run, only=None):
    from props import c14_xh
    from props.c02 import run_xh_family, twin_check
    run.functions = [{"module": "pysmt/walkers/dag.py, pysmt/oracles.py, pysmt/simplifier.py, pysmt/type_checker.py, pysmt/formula.py",
                      "what": "persistent memoisation of env.simplifier/stc/fvo/ao/qfo/theoryo/typeso/sizeo, TheoryOracle copy "
                              "discipline, value-keyed constant caches, FormulaManager.normalize",
                      "sha1": core.src_sha("pysmt/walkers/dag.py", "pysmt/oracles.py", "pysmt/simplifier.py", "pysmt/type_checker.py",
                                           "pysmt/formula.py", "pysmt/logics.py")}]
    run.bounds = {"pre-state": "all 2^10 subsets of a pool of 10 earlier calls (logic detection on string/int formulas, simplify, "
                               "analyses, sizes with 3 measures, substitute, theory queries on shared sub-terms, printing)",
                  "calls under test": "%d calls" % len(c14_xh.CALLS), "universe": "10 formulas sharing sub-DAGs (x+y+z, x+1, ...)",
                  "spellings": "int/float/Fraction/pair/bool spellings of 0,1,2,-3,1/2 for Int and Real, all ordered pairs"}
    run.outside = ["walkers created by the user", "histories involving reset_env"]
    if not only or "spelling" in only:
        tv.run_family(run, "c14-spelling", run.tier)
    if not only or "foreign" in only:
        tv.run_family(run, "c14-foreign", run.tier)
    if not only or "xh-step" in only:
        t = 200.0 if run.tier == "quick" else 600.0
        jobs = [("props.c14_xh", "h_step", t, {"call": c, "name": "step/%s" % c}) for c in c14_xh.CALLS]

        def describe(p, r):
            return "after the earlier calls selected by %r the call %s differs from a fresh environment (result, identity or memo entries)" % (r["args"], p["call"])
        run_xh_family(run, "xh-step", jobs, describe, lambda p, a: "history/step/%s" % p["call"], "xh")
        twin_check(run, "xh-step", jobs[::8])
    run.extra["states"] = 1024 * len(c14_xh.CALLS)
