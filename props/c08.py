"""C08 - SMT-LIB import never misreads (engine TV, differential against z3's own SMT-LIB reader).

Scripts are generated from a grammar of the standard's constructs (chainable / left- / right-associative
operators, parallel let, binders shadowing globals, define-fun parameters, numerals typed by logic, literals in
every notation, indexed operators, quoted symbols, comments, push/pop).  Both readers run on the same text:
  both accept                -> every assertion must be equal under all interpretations (z3 validity query on
                                tr_z3(pysmt formula) == z3 formula);
  pySMT rejects, z3 accepts  -> allowed (rejection is not misreading) unless the script is on the committed
                                allow-list of constructs accepted today ("keeps being accepted");
  pySMT accepts, z3 rejects  -> recorded, not a violation (z3 is not the standard).
A CrossHair family checks the tokenizer against a reference lexer on symbolic input strings (props/c08_xh.py).
"""
import io
import json
import os
import warnings

import z3

from engine import core
from engine.ref.tr_z3 import Z3Tr, Untranslatable
from engine.tv import driver as tv

LEVEL = "translation_validation"

ALLOW = os.path.join(core.VERIF, "props", "c08_accepted.json")

PRELUDE = """(declare-fun x () Int)(declare-fun y () Int)(declare-fun z () Int)
(declare-fun r () Real)(declare-fun s () Real)(declare-fun p () Bool)(declare-fun q () Bool)(declare-fun w () Bool)
(declare-fun a () (_ BitVec 4))(declare-fun b () (_ BitVec 4))(declare-const c (_ BitVec 4))
(declare-fun m () (Array Int Int))(declare-fun u () String)(declare-fun v () String)
(declare-fun f (Int) Int)(declare-fun g (Int Int) Int)(declare-fun h (Bool) Bool)
"""

# Boolean terms over the prelude: (text, logic or None)
TERMS = [
    # chainable / associativity
    "(= x y z)", "(= x y)", "(= p q w)", "(< x y z)", "(<= x y z)", "(> x y z)", "(>= x y z)", "(distinct x y z)", "(distinct p q)",
    "(distinct x y)", "(=> p q w)", "(=> p q)", "(and p)", "(and p q w)", "(or p q w)", "(xor p q)", "(xor p q w)", "(not (not p))",
    "(= (- x) y)", "(= (- x y) z)", "(= (- x y z) 0)", "(= (- 0 x 1) y)", "(= (+ x) y)", "(= (+ x y z) 0)", "(= (* x 2 3) y)",
    "(= (* 2 x) (* x 2))", "(= (* x y) z)", "(= (bvadd a b c) a)", "(= (bvand a b c) a)", "(= (bvor a b c) a)", "(= (bvmul a b c) a)",
    "(= (bvxor a b c) a)", "(= (concat a b c) (concat c b a))", "(= (concat a b) #x12)",
    "(ite p q w)", "(= (ite p x y) z)", "(ite (< x y) (= x 1) (= y 2))",
    # let
    "(let ((x y) (y x)) (< x y))", "(let ((x y)) (let ((y x)) (< x y)))", "(let ((t (+ x 1))) (let ((t (+ t 1))) (= t y)))",
    "(let ((x 1) (y (+ x 1))) (= y 2))", "(let ((p q) (q p)) (and p (not q)))", "(let ((a b) (b a)) (bvult a b))",
    "(let ((t (f x))) (= t (f t)))", "(let ((x (+ x 1))) (let ((x (+ x 1))) (= x y)))", "(let ((f x)) (= f y))",
    "(let ((t1 (< x y)) (t2 (< y z))) (=> t1 t2))", "(let ((x!1 x)) (= x!1 y))", "(let ((|t t| x)) (= |t t| y))",
    # quantifiers and shadowing
    "(forall ((x Int)) (exists ((y Int)) (< x y)))", "(forall ((x Int)) (< x y))", "(exists ((x Int) (y Int)) (and (< x y) (< y z)))",
    "(forall ((t Int)) (let ((x t)) (< x y)))", "(let ((t x)) (forall ((x Int)) (< t x)))", "(forall ((p Bool)) (or p q))",
    "(and (< x y) (forall ((x Int)) (exists ((x Int)) (< x y))))", "(exists ((a (_ BitVec 4))) (bvult a b))",
    "(forall ((x Int) (x Int)) (< x y))", "(forall ((r Real)) (exists ((s Real)) (< r s)))", "(exists ((k Int)) (= (f k) x))",
    # indexed operators and BV literals
    "(= ((_ extract 2 1) a) #b01)", "(= ((_ extract 3 3) a) #b1)", "(= ((_ zero_extend 2) a) #b000101)",
    "(= ((_ sign_extend 1) a) #b11010)", "(= ((_ zero_extend 0) a) b)", "(= ((_ rotate_left 1) a) b)", "(= ((_ rotate_right 1) a) b)",
    "(= ((_ rotate_left 5) a) b)", "(= ((_ rotate_left 4) a) b)", "(= ((_ rotate_left 0) a) b)", "(= ((_ repeat 2) a) #x55)",
    "(= ((_ repeat 1) a) a)", "(= a (_ bv5 4))", "(= a (_ bv15 4))", "(= a #xF)", "(= a #xf)", "(= a #b0101)",
    "(bvult a b)", "(bvule a b)", "(bvugt a b)", "(bvuge a b)", "(bvslt a b)", "(bvsle a b)", "(bvsgt a b)", "(bvsge a b)",
    "(= (bvnot a) b)", "(= (bvneg a) b)", "(= (bvsub a b) c)", "(= (bvudiv a b) c)", "(= (bvurem a b) c)", "(= (bvsdiv a b) c)",
    "(= (bvsrem a b) c)", "(= (bvsmod a b) c)", "(= (bvshl a b) c)", "(= (bvlshr a b) c)", "(= (bvashr a b) c)",
    "(= (bvnand a b) c)", "(= (bvnor a b) c)", "(= (bvxnor a b) c)", "(= (bvcomp a b) #b1)", "(= (bv2nat a) x)",
    "(= ((_ int2bv 4) x) a)", "(= (bvadd a #x1) #x0)",
    # arithmetic: numerals, decimals, division
    "(< x 5)", "(< x (- 5))", "(< x -5)", "(< r 1.5)", "(< r (- 1.5))", "(< r (/ 1 3))", "(< r (/ 1.0 3.0))", "(< r (/ (- 1) 3))",
    "(= r (/ r 2))", "(= r (/ r s))", "(= x (div y 2))", "(= x (div y z))", "(= x (mod y 3))", "(= x (abs y))", "(= (to_real x) r)",
    "(< (to_real x) (+ r 0.5))", "(= (to_int r) x)", "(is_int r)", "(= x (* (- 2) y))", "(= (+ r 1.0) s)", "(<= 0 x 10)",
    "(= x 00)", "(= x 007)", "(< r 1.50)", "(= 1 1)", "(= (+ 1 2) 3)", "(< (- 3) (- 2))", "(= (* 2 3) 6)", "(= (/ 6 3) 2.0)",
    # arrays
    "(= (select m x) y)", "(= (store m x y) m)", "(= (select (store m x y) z) 0)", "(= m ((as const (Array Int Int)) 0))",
    "(= (select ((as const (Array Int Int)) 7) x) 7)", "(= (select (store ((as const (Array Int Int)) 1) 2 3) y) 3)",
    # strings
    "(= (str.len u) x)", "(= (str.++ u v) u)", "(= (str.++ u v u) v)", "(= (str.at u x) v)", "(= (str.substr u x y) v)",
    "(str.prefixof u v)", "(str.suffixof u v)", "(str.contains u v)", "(= (str.indexof u v x) y)", "(= (str.replace u v u) v)",
    "(= (str.to.int u) x)", "(= (int.to.str x) u)", "(= (str.to_int u) x)", "(= (str.from_int x) u)", '(= u "a""b")', '(= u "")',
    '(= u "a b")', '(= u "\\u{41}")', '(= u "a;b")', '(= u "(")', '(= (str.len "abc") 3)', '(str.< u v)', '(str.<= u v)',
    # annotations, quoted symbols, comments
    "(! (< x y) :named n1)", "(and (! p :named np) q)", "(< |x| y)", "(= |x| x)", "(< x y) ; comment ( with paren",
    "(< x ; inside\n y)", "(<\tx\ty)", "(< x\r\n y)",
    # UF
    "(= (f x) (g x y))", "(h (h p))", "(= (f (f x)) x)",
]

# whole scripts (binders in commands, redefinition, push/pop scoping, logics typing numerals)
SCRIPTS = [
    ("define-fun params shadow globals", "(define-fun k ((x Int) (y Int)) Int (- x y))(assert (= (k y x) 1))(assert (= (k 1 2) z))"),
    ("define-fun 0-ary", "(define-fun k () Int (+ x 1))(assert (< k y))"),
    ("define-fun using earlier define", "(define-fun k1 ((t Int)) Int (+ t 1))(define-fun k2 ((t Int)) Int (k1 (k1 t)))(assert (= (k2 x) y))"),
    ("define-fun Bool", "(define-fun lt ((t1 Int) (t2 Int)) Bool (< t1 t2))(assert (lt x y))(assert (not (lt y x)))"),
    ("define-fun param named like function", "(define-fun k ((f Int)) Int (+ f 1))(assert (= (k x) (f y)))"),
    ("define-fun redefinition after pop",
     "(push 1)(define-fun k ((t Int)) Int (+ t 1))(assert (> (k y) 25))(pop 1)(define-fun k ((t Int)) Int (* t 10))(assert (> (k y) 25))"),
    ("define-fun body with let shadowing param", "(define-fun k ((t Int)) Int (let ((t (+ t 1))) (* t 2)))(assert (= (k x) y))"),
    ("define-fun applied under quantifier", "(define-fun k ((t Int)) Bool (< t x))(assert (forall ((x Int)) (k x)))"),
    ("declare-const", "(declare-const kk Int)(assert (< kk x))"),
    ("push/pop scoping", "(push 1)(assert (< x 1))(pop 1)(assert (> x 5))"),
    ("push 2 pop 1", "(push 2)(assert (< x 1))(pop 1)(assert (> y 5))(pop 1)(assert (= z 0))"),
    ("declaration inside push", "(push 1)(declare-fun t () Int)(assert (< t x))(pop 1)(declare-fun t () Bool)(assert t)"),
    ("LRA numerals are reals", "(set-logic QF_LRA)(declare-fun t () Real)(assert (< t 1))(assert (= (+ t 1) 2))"),
    ("LIA numerals are ints", "(set-logic QF_LIA)(declare-fun t () Int)(assert (< t 1))(assert (= (+ t 1) 2))"),
    ("LIRA mixed", "(set-logic QF_LIRA)(declare-fun t () Real)(declare-fun n () Int)(assert (< t 1))(assert (< n 1))(assert (< (to_real n) t))"),
    ("LRA division of numerals", "(set-logic QF_LRA)(declare-fun t () Real)(assert (= t (/ 1 3)))(assert (< (* 3 t) 2))"),
    ("named then referenced", "(assert (! (< x y) :named n1))(assert (=> n1 (< x z)))"),
    ("quoted and unquoted are the same symbol", "(declare-fun |k k| () Int)(assert (< |k k| x))(assert (= |x| |k k|))"),
    ("symbol with odd characters", "(declare-fun k!0.~ () Int)(assert (< k!0.~ x))"),
    ("quoted numeral-like symbol", "(declare-fun |12| () Int)(assert (= |12| 13))"),
    ("define-sort", "(define-sort MyInt () Int)(declare-fun t () MyInt)(assert (< t x))"),
    ("declare-sort and UF", "(declare-sort U 0)(declare-fun e1 () U)(declare-fun e2 () U)(declare-fun ff (U) U)(assert (= (ff e1) e2))(assert (distinct e1 e2))"),
    ("check-sat and get-model interleaved", "(assert (< x y))(check-sat)(assert (< y z))(check-sat)(get-model)"),
    ("reset-assertions", "(assert (< x y))(reset-assertions)(declare-fun x () Int)(declare-fun y () Int)(assert (< y x))"),
    ("let shadows a define-fun name", "(define-fun k () Int 5)(assert (let ((k 1)) (= k x)))"),
    ("quantifier shadows a define-fun name", "(define-fun k () Int 5)(assert (forall ((k Int)) (< k x)))"),
    ("define-fun param shadows a define-fun name", "(define-fun k () Int 5)(define-fun k2 ((k Int)) Int (+ k 1))(assert (= (k2 x) y))"),
    ("let-bound name equal to a later global", "(assert (let ((t x)) (< t y)))(declare-fun t () Bool)(assert t)"),
    ("nested let scope ends", "(assert (and (let ((x y)) (< x z)) (< x z)))"),
    ("quantifier scope ends", "(assert (and (forall ((x Int)) (< x y)) (< x z)))"),
]

def _push_pop_scripts():
    """(assert A)(push P1)(assert B)(push P2)(assert C)(pop Q)(assert D) for every numeral spelling incl. 0 and the omitted one"""
    out = []
    for p1 in ("", "0", "1", "2"):
        for p2 in ("", "0", "1", "2"):
            depth = (1 if p1 == "" else int(p1)) + (1 if p2 == "" else int(p2))
            for q in ("", "0", "1", "2", "3"):
                if (1 if q == "" else int(q)) > depth:
                    continue
                body = "(assert (< x 1))(push %s)(assert (< y 2))(push %s)(assert (< z 3))(pop %s)(assert p)" % (p1, p2, q)
                out.append(("push%s push%s pop%s" % (p1 or "_", p2 or "_", q or "_"), body.replace("push )", "push)").replace("pop )", "pop)")))
    return out


SCRIPTS += _push_pop_scripts()

# malformed / non-standard text: must be rejected with an error, never silently read as something else
MALFORMED = [
    ("undeclared symbol", "(assert (< undeclared1 x))"),
    ("undeclared symbol in equality", "(assert (= undeclared2 u))"),
    ("undeclared Boolean", "(assert undeclared3)"),
    ("undeclared function", "(assert (= (undeclaredf x) y))"),
    ("wrong arity not", "(assert (not p q))"),
    ("ill-sorted plus", "(assert (= (+ p 1) x))"),
    ("ill-sorted comparison", "(assert (< x a))"),
    ("bv width mismatch", "(assert (= (bvadd a #b01) a))"),
    ("extract out of range", "(assert (= ((_ extract 4 1) a) a))"),
    ("extract reversed", "(assert (= ((_ extract 1 2) a) #b11))"),
    ("unbalanced", "(assert (< x y)"),
    ("extra paren", "(assert (< x y)))"),
    ("unterminated string", '(assert (= u "abc))'),
    ("unterminated quoted symbol", "(assert (< |x y))"),
    ("let without body", "(assert (let ((t x))))"),
    ("empty assert", "(assert)"),
    ("unknown command", "(frobnicate x)"),
    ("redeclaration with another sort", "(declare-fun x () Bool)(assert x)"),
    ("numeral applied", "(assert (= (1 x) y))"),
    ("ite sort mismatch", "(assert (= (ite p x r) r))"),
    ("select on non-array", "(assert (= (select x 1) 2))"),
    ("bv literal bad digit", "(assert (= a #b0121))"),
    ("bvN too large", "(assert (= a (_ bv16 4)))"),
    ("define-fun wrong body sort", "(define-fun k ((t Int)) Bool (+ t 1))(assert (k x))"),
    ("define-fun wrong arity use", "(define-fun k ((t Int)) Int (+ t 1))(assert (= (k x y) z))"),
    ("forall missing sort", "(assert (forall ((t)) (< t x)))"),
    ("pop below zero", "(pop 1)(assert p)"),
]


USED_PARSER_SCRIPT = [
    "(set-logic QF_LRA)(declare-fun zz9 () Real)(define-fun kk9 ((tt9 Real)) Real (+ tt9 1.5))(assert (! (> (kk9 zz9) 2) :named ww9))(check-sat)",
    "(set-logic QF_BV)(declare-fun xx9 () (_ BitVec 4))(define-fun qq9 () Bool (bvult xx9 #x3))(push 1)(assert qq9)(check-sat)",
]


def cases(tier):
    out = []
    for k, t in enumerate(TERMS):
        out.append(("term/%03d" % k, t, PRELUDE + "(assert %s)\n" % t, True))
        # the same term nested in Boolean context and as second assertion (binder state must not leak)
        out.append(("term2/%03d" % k, t, PRELUDE + "(assert (or w %s))\n(assert (=> %s q))\n" % (t, t), True))
    for k, (nm, body) in enumerate(MALFORMED):
        out.append(("malformed/%02d %s" % (k, nm), body, PRELUDE + body + "\n(assert q)\n", False))
    for k, (nm, body) in enumerate(SCRIPTS):
        pre = "" if body.startswith("(set-logic") or "reset-assertions" in body and False else PRELUDE
        if body.startswith("(set-logic"):
            pre = ""
        out.append(("script/%02d %s" % (k, nm), body, pre + body, True))
    return out


def gen(env, tier):
    return cases(tier)


def pysmt_read(env, text):
    from pysmt.smtlib.parser import SmtLibParser
    with warnings.catch_warnings():
        warnings.simplefilter("ignore")
        script = SmtLibParser(env).get_script(io.StringIO(text))
        return script.get_last_formula()


def load_allow():
    try:
        with open(ALLOW) as fh:
            return set(json.load(fh)["accepted"])
    except OSError:
        return None


_ALLOW = None


def check(env, case, timeout_ms=8000):
    """one fresh environment per script (symbols of different scripts must not meet)"""
    from pysmt.environment import pop_env
    env = tv.fresh_env()
    try:
        return check_in_env(env, case, timeout_ms)
    finally:
        pop_env()


def check_in_env(env, case, timeout_ms=8000):
    global _ALLOW
    if _ALLOW is None:
        _ALLOW = load_allow() or set()
    cid, src, text, wellformed = case
    name = cid
    if not wellformed:
        return check_malformed(env, case)
    rp = {"id": cid, "text": text}
    try:
        pf = pysmt_read(env, text)
        perr = None
    except Exception as e:
        pf, perr = None, e
    try:
        zs = z3.parse_smt2_string(text)
        zerr = None
    except z3.Z3Exception as e:
        zs, zerr = None, e
    # the same text on a parser object that has already read another script (with another logic and its own declarations,
    # definitions and named terms): must be read exactly as by a fresh parser
    try:
        from pysmt.smtlib.parser import SmtLibParser
        with warnings.catch_warnings():
            warnings.simplefilter("ignore")
            used = SmtLibParser(env)
            used.get_script(io.StringIO(USED_PARSER_SCRIPT[len(cid) % 2]))
            pf2 = used.get_script(io.StringIO(text)).get_last_formula()
        perr2 = None
    except Exception as e:
        pf2, perr2 = None, e
    if (perr is None) != (perr2 is None) or (perr is None and pf2 is not pf):
        return {"name": name, "status": "viol", "signature": "import/used-parser/%s" % cid.split("/")[0],
                "describe": "%s: %r is read as %s by a fresh parser and as %s by a parser that has read another script before" %
                            (cid, src, pf.serialize()[:150] if pf is not None else repr(perr),
                             pf2.serialize()[:150] if pf2 is not None else repr(perr2)), "replay": rp}
    if perr is not None:
        if cid in _ALLOW:
            return {"name": name, "status": "viol", "signature": "import/no-longer-accepted/%s" % cid.split("/")[0],
                    "describe": "%s: %r was accepted when the allow-list was frozen, now raises %r" % (cid, src, perr), "replay": rp}
        return {"name": name, "status": "ok", "rejected": True, "sample": {"case": cid, "text": src, "verdict": "rejected by pySMT: %s" % type(perr).__name__}}
    if zerr is not None:
        return {"name": name, "status": "ok", "nontrivial": True, "z3_rejects": True, "accepted": True}
    tr = Z3Tr()
    try:
        zp = tr.tr(pf)
    except Untranslatable as e:
        return {"name": name, "status": "inconc", "reason": str(e)}
    zz = z3.And(*list(zs)) if len(zs) != 1 else zs[0]
    if zp.eq(zz):
        return {"name": name, "status": "ok", "nontrivial": True, "accepted": True, "same": True}
    st, mo, dt = tv.check_valid(zp == zz, timeout_ms, premises=tr.defined)
    res = {"name": name, "status": "ok", "queried": True, "t": dt, "nontrivial": True, "accepted": True}
    if st == "unsat":
        res["sample"] = {"case": cid, "text": src, "pysmt": pf.serialize()[:120], "verdict": "equal to z3's reading under all interpretations"}
        return res
    if st == "sat":
        return {"name": name, "status": "viol", "signature": "import/misread/%s" % cid, "queried": True, "t": dt,
                "describe": "%s: %r read by pySMT as %s, by z3 as %s (separating model %s)" %
                            (cid, src, pf.serialize()[:200], str(zz)[:200], str(mo)[:150]), "replay": rp}
    return {"name": name, "status": "inconc", "reason": "unknown %s" % mo, "queried": True, "t": dt}


def check_malformed(env, case):
    cid, src, text, _ = case
    rp = {"id": cid, "text": text, "malformed": True}
    try:
        z3.parse_smt2_string(text)
        zacc = True
    except z3.Z3Exception:
        zacc = False
    try:
        pf = pysmt_read(env, text)
    except Exception as e:
        return {"name": cid, "status": "ok", "nontrivial": True,
                "sample": {"case": cid, "text": src, "verdict": "rejected (%s)" % type(e).__name__}}
    if zacc:
        # the independent reader accepts it too: not malformed for practical purposes, nothing to conclude
        return {"name": cid, "status": "ok", "z3_accepts_malformed": True}
    return {"name": cid, "status": "viol", "signature": "import/accepted-malformed/%s" % cid,
            "describe": "%s: malformed text %r is accepted and read as %s" % (cid, src, pf.serialize()[:200]), "replay": rp}


tv.register("c08-import", gen, check)


def freeze():
    """(development aid) writes the allow-list of scripts accepted on the current tree"""
    env = tv.fresh_env()
    acc = []
    for case in cases("thorough"):
        try:
            pysmt_read(tv.fresh_env(), case[2])
            acc.append(case[0])
        except Exception:
            pass
    with open(ALLOW, "w") as fh:
        json.dump({"accepted": acc, "note": "scripts of props/c08.py accepted by SmtLibParser when frozen; 'keeps being accepted'"}, fh, indent=0)
    return acc


def replay(data):
    if data.get("kind") == "xh":
        from props.c02 import replay_call
        d = dict(data)
        d["mod"] = "props.c08_xh"
        return replay_call(d)
    env = tv.fresh_env()
    if data.get("malformed"):
        r = check_malformed(env, (data["id"], data["text"], data["text"], False))
    else:
        r = check(env, (data["id"], data["text"], data["text"], True), 20000)
    if r["status"] == "viol":
        return True, r["describe"]
    return False, "status=%s" % r["status"]


def run(run, only=None):
    run.functions = [{"module": "pysmt/smtlib/parser/parser.py, pysmt/smtlib/script.py",
                      "what": "Tokenizer, SmtLibParser (term reader, binders, literals, indexed identifiers, commands), "
                              "SmtLibScript.get_last_formula", "sha1": core.src_sha("pysmt/smtlib/parser/parser.py", "pysmt/smtlib/script.py")}]
    run.bounds = {"terms": "%d term templates x 2 contexts" % len(TERMS), "scripts": "%d command-level scripts" % len(SCRIPTS),
                  "interpretations": "all (z3 validity of the two readings)"}
    run.outside = ["commands z3 does not read (OMT extensions)", "parse_model on solver-specific syntaxes",
                   "text beyond the listed constructs"]
    run.assumptions = ["z3's front end as the independent reading of the standard; where z3 rejects nothing is concluded"]
    if not only or "import" in only:
        viols = tv.run_family(run, "c08-import", run.tier)
    if not only or "xh-lex" in only:
        try:
            from props import c08_xh
            c08_xh.run(run)
        except ImportError:
            pass
    run.extra["programs"] = run.evaluations


if __name__ == "__main__":
    import sys
    core.setup_paths()
    print(len(freeze()), "accepted")
