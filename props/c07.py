"""C07 - SMT-LIB export is well-formed and denotes the same thing as the formula (engine TV).

The text written by smtlibscript_from_formula(f).serialize(daggify in {False, True}) is read by an
INDEPENDENT reader - z3's own SMT-LIB front end (z3.parse_smt2_string) - with no pre-declared symbols.
  well-formed + declared-before-use  =  z3 accepts the script;
  same meaning                       =  z3_parsed_assertion == tr_z3(f) valid (all interpretations).
A second family decides symbol quoting over all names by a z3 regex-inclusion query (engine AZ) and
checks concrete names needing quotes through the z3 reader.
"""
import io
import re
import warnings

import z3

from pysmt import operators as op
from pysmt import typing as T

from engine import blueprint as bp
from engine import core
from engine.ref import refstruct as rs
from engine.ref.tr_z3 import Z3Tr, Untranslatable
from engine.tv import driver as tv
from engine.tv.grammar import Grammar, dedup

LEVEL = "translation_validation"

# operators z3's reader has no reading for: listed as not checkable by the independent reader
UNREADABLE = (op.POW, op.ALGEBRAIC_CONSTANT)


def unreadable(f):
    for t in rs.subterms(f):
        if t.node_type() in UNREADABLE:
            return "pow/algebraic (no z3 reading)"
        if t.node_type() == op.STR_CONSTANT and any(ord(c) > 126 or ord(c) < 32 for c in t.constant_value()):
            return "non-ASCII string literal (z3's Python reader decodes bytes, not code points)"
        if t.node_type() == op.STR_CONSTANT and "\\u" in t.constant_value():
            return "string literal containing an escape-like sequence"
    return None


def script_text(f, daggify):
    from pysmt.smtlib.script import smtlibscript_from_formula
    buf = io.StringIO()
    with warnings.catch_warnings():
        warnings.simplefilter("ignore")
        smtlibscript_from_formula(f).serialize(buf, daggify=daggify)
    return buf.getvalue()


def z3_read(text):
    ctx = z3.main_ctx()
    # pySMT's own logic names for custom sorts / constant arrays (QF_BOOLt, QF_ALIA*) are unknown to z3, which would only print
    # a warning and ignore the line
    text = re.sub(r"^\(set-logic [A-Z_]*[t*]+\)\n", "", text)
    return z3.parse_smt2_string(text, ctx=ctx)


def gen_export(env, tier):
    g = Grammar(env, widths=(1, 4) if tier == "quick" else (1, 2, 3, 4, 8))
    l1 = dedup(g.level1())
    forms = [t for _, t in l1 if env.stc.get_type(t).is_bool_type()]
    l2 = dedup(g.level2(l1))
    l2b = [t for _, t in l2 if env.stc.get_type(t).is_bool_type()]
    forms += l2b[::(23 if tier == "quick" else 3)]
    m = g.m
    i, j = g.sym[g.I]
    r, s = g.sym[g.R]
    a, b = g.sym[g.B]
    u, v = g.sym[g.S]
    from fractions import Fraction
    # boundary constants
    big = [m.Int(2 ** 64 + 1), m.Int(-(2 ** 63)), m.Int(10 ** 30)]
    forms += [m.LT(i, c) for c in big] + [m.Equals(m.Plus(i, c), j) for c in big]
    rq = [m.Real(Fraction(10 ** 30, 3)), m.Real(Fraction(-1, 3)), m.Real(Fraction(-7, 1)), m.Real(2 ** 64 + 1),
          m.Real(Fraction(1, 10 ** 20))]
    forms += [m.LE(r, c) for c in rq] + [m.Equals(m.Times(r, c), s) for c in rq]
    strs = ['a"b', '""', '"', "a b", "\\", "\\n", "|x|", ";c", "(", "a\tb", "x\\u{41}"]
    forms += [m.Equals(u, m.String(x)) for x in strs]
    forms += [m.Equals(m.StrConcat(u, m.String(x)), v) for x in strs[:4]]
    # heavy sharing (DAG printer) and let-name clashes with user symbols named like the printer's lets
    d0, d1 = m.Symbol(".def_0", T.INT), m.Symbol(".def_1", T.BOOL)
    sh = m.Plus(i, j)
    for _ in range(4):
        sh = m.Plus(sh, sh)
    forms += [m.LT(sh, m.Times(sh, m.Int(2))), m.And(d1, m.LT(d0, m.Plus(d0, i))),
              m.Or(m.LT(m.Plus(d0, i), j), m.And(d1, m.LT(m.Plus(d0, i), j))),
              m.ForAll([d0], m.Implies(d1, m.Exists([i], m.LT(m.Plus(d0, i), j))))]
    # custom sorts and UF over them
    U = env.type_manager.Type("U", 0)
    V = env.type_manager.Type("V s", 0)
    uu, vv = m.Symbol("uu", U), m.Symbol("vv", V)
    gU = m.Symbol("gU", env.type_manager.FunctionType(U, [U, T.INT]))
    pV = m.Symbol("pV", env.type_manager.FunctionType(T.BOOL, [V, U]))
    au = m.Symbol("au", env.type_manager.ArrayType(U, T.INT))
    forms += [m.Equals(m.Function(gU, [uu, i]), uu), m.Function(pV, [vv, m.Function(gU, [uu, m.Int(0)])]),
              m.Equals(m.Select(au, uu), i), m.ForAll([uu], m.Function(pV, [vv, uu]))]
    # names needing quoting (not reserved words / theory symbols / literal spellings)
    for nm in names_needing_quotes():
        x = m.Symbol(nm, T.INT)
        p = m.Symbol(nm + "!p", T.BOOL)
        forms += [m.LT(x, m.Plus(x, i)), m.And(p, m.LT(x, i)), m.Exists([x], m.LT(i, x))]
    return BoolUniq(forms)


def BoolUniq(ts):
    seen = set()
    out = []
    for t in ts:
        if t not in seen:
            seen.add(t)
            out.append(t)
    return out


def names_needing_quotes():
    return ["a b", "0abc", "x y z", "a(b", "a)b", "a;b", 'a"b', "a#b", "a,b", "a:b", "a'b", "a[b]", "a{b}", "é", "a`b",
            " ", "a  b", "~weird!", "x.1", "-", "<=>", "a\tb", "A" * 70]


def check_export(env, f, timeout_ms=5000):
    name = "export"
    why = unreadable(f)
    res = {"name": name, "status": "ok", "queries": 0, "t": 0.0, "nontrivial": True}
    tr = Z3Tr()
    try:
        zf = tr.tr(f)
    except Untranslatable as e:
        why = why or str(e)
        zf = None
    for dag in (False, True):
        try:
            text = script_text(f, dag)
        except Exception as e:
            return {"name": name, "status": "viol", "signature": "export/raises:%s" % type(e).__name__,
                    "describe": "smtlibscript_from_formula(%s).serialize(daggify=%s) raises %r" % (f.serialize(), dag, e),
                    "replay": {"formula": bp.to_bp(f), "dag": dag}}
        if why:
            continue
        try:
            asserts = z3_read(text)
        except z3.Z3Exception as e:
            sig = "export/rejected/%s" % classify(f)
            bad_sorts = [str(ty) for ty in custom_sorts(f) if re.match(r"^[A-Za-z][A-Za-z0-9_]*$", str(ty)) is None]
            if bad_sorts:
                sig = "export/rejected/custom-sort-name-needs-quoting"
            return {"name": name, "status": "viol", "signature": sig,
                    "describe": "independent reader rejects %r: %s" % (text[:400], str(e)[:200]),
                    "replay": {"formula": bp.to_bp(f), "dag": dag}}
        if len(asserts) != 1:
            return {"name": name, "status": "viol", "signature": "export/assert-count",
                    "describe": "%d assertions read from %r" % (len(asserts), text[:300]),
                    "replay": {"formula": bp.to_bp(f), "dag": dag}}
        zt = asserts[0]
        if zt.eq(zf):
            continue
        st, mo, dt = tv.check_valid(zt == zf, timeout_ms, premises=tr.defined)
        res["queries"] += 1
        res["t"] += dt
        if st == "sat":
            return {"name": name, "status": "viol", "signature": "export/meaning/%s" % classify(f), "queried": True,
                    "t": res["t"],
                    "describe": "%s exported as %r is read as %s (model %s)" % (f.serialize(), text[:400], str(zt)[:200], mo),
                    "replay": {"formula": bp.to_bp(f), "dag": dag}}
        if st != "unsat":
            return {"name": "export:%s" % f.serialize()[:100], "status": "inconc", "reason": "unknown %s" % mo,
                    "queries": res["queries"], "t": res["t"]}
    if why:
        res["skipped_reader"] = why
        res["sample"] = None
    else:
        res["sample"] = {"formula": f.serialize()[:160], "verdict": "z3 reads tree and DAG text; both equal tr(f) for all interpretations"}
    return res


def custom_sorts(f):
    out = []

    def visit(ty):
        if ty.is_function_type():
            for p in ty.param_types:
                visit(p)
            visit(ty.return_type)
        elif ty.is_array_type():
            visit(ty.index_type)
            visit(ty.elem_type)
        elif ty.is_custom_type():
            out.append(ty)
    for sym in rs.all_symbols(f):
        visit(sym.symbol_type())
    return out


def classify(f):
    ops = sorted(set(op.op_to_str(t.node_type()) for t in rs.subterms(f)
                     if t.node_type() in (op.DIV, op.STR_TO_INT, op.INT_TO_STR, op.BV_TONATURAL, op.ARRAY_VALUE,
                                          op.TOREAL, op.STR_CONSTANT, op.REAL_CONSTANT, op.FORALL, op.EXISTS)))
    if any(t.node_type() == op.SYMBOL and re.match(r"^[A-Za-z][A-Za-z0-9_!]*$", t.symbol_name()) is None
           for t in rs.all_symbols(f)):
        ops.append("quoted-name")
    return "+".join(ops) if ops else rs.shape(f)


# ---- quoting: regex inclusion over ALL names (engine AZ: regular-language query, unbounded length) ----------------------
def simple_symbol_regex_from_source():
    """Translate pysmt.utils._simple_symbol_prog (read from the current source) into a z3 regex."""
    import pysmt.utils as U
    pat = U._simple_symbol_prog.pattern
    mobj = re.match(r"^\^\[(.*)\]\[(.*)\]\*\$$", pat)
    if not mobj:
        raise ValueError("unexpected simple-symbol pattern %r" % pat)

    def cls(body):
        parts = []
        k = 0
        chars = []
        while k < len(body):
            ch = body[k]
            if ch == "\\":
                chars.append(body[k + 1])
                k += 2
            elif k + 2 < len(body) and body[k + 1] == "-" and body[k + 2] != "]":
                parts.append(z3.Range(ch, body[k + 2]))
                k += 3
            else:
                chars.append(ch)
                k += 1
        for c in chars:
            parts.append(z3.Re(z3.StringVal(c)))
        return z3.Union(*parts) if len(parts) > 1 else parts[0]
    first, rest = cls(mobj.group(1)), cls(mobj.group(2))
    return z3.Concat(first, z3.Star(rest)), pat


def smtlib_simple_symbol_regex():
    letters = z3.Union(z3.Range("a", "z"), z3.Range("A", "Z"))
    digits = z3.Range("0", "9")
    special = z3.Union(*[z3.Re(z3.StringVal(c)) for c in "~!@$%^&*_-+=<>.?/"])
    first = z3.Union(letters, special)
    rest = z3.Union(letters, digits, special)
    return z3.Concat(first, z3.Star(rest))


def check_quote_regex(run):
    t0 = __import__("time").time()
    try:
        mine, pat = simple_symbol_regex_from_source()
    except Exception as e:
        run.inconc("az-quote", "regex", "cannot translate pattern: %r" % (e,))
        return
    std = smtlib_simple_symbol_regex()
    s = z3.String("name")
    sol = z3.Solver()
    sol.set("timeout", 20000)
    sol.add(z3.InRe(s, mine), z3.Not(z3.InRe(s, std)))
    r = sol.check()
    dt = __import__("time").time() - t0
    if r == z3.unsat:
        run.ok("az-quote", 1, queries=1, solver_s=dt)
        run.sample({"family": "az-quote", "pattern": pat, "verdict": "every name printed unquoted is an SMT-LIB simple symbol (all lengths)"})
    elif r == z3.sat:
        nm = sol.model()[s].as_string()
        run.violation("az-quote", "regex", {"kind": "quote", "name": nm}, "quote/unquoted-nonsimple",
                      "name %r is printed unquoted but is not an SMT-LIB simple symbol" % nm, queries=1, solver_s=dt)
    else:
        run.inconc("az-quote", "regex", "unknown", queries=1, solver_s=dt)


tv.register("c07-export", gen_export, check_export)


# ---- multi-command scripts: one printer instance serves every command of a script ---------------------------------------------------
def gen_script(env, tier):
    g = Grammar(env, widths=(2,))
    l1 = dedup(g.level1())
    bools = [t for _, t in l1 if env.stc.get_type(t).is_bool_type() and unreadable(t) is None]
    l2 = [t for _, t in dedup(g.level2(l1)) if env.stc.get_type(t).is_bool_type() and unreadable(t) is None]
    pool = bools[::(9 if tier == "quick" else 2)] + l2[::(211 if tier == "quick" else 23)]
    m = g.m
    out = []
    for k in range(len(pool) - 1):
        f1, f2 = pool[k], pool[k + 1]
        # later commands re-use compound sub-terms of earlier ones (and the other way round)
        out.append(("triple", [f1, m.Or(f1, f2), m.Not(f2)]))
        if k % 3 == 0:
            out.append(("grow", [m.And(f1, f2), f1, m.Implies(f2, f1), f2]))
    return out


def script_of(env, formulas):
    """declare every symbol once, then one assert per formula - built through the public script API"""
    from pysmt.smtlib.script import SmtLibScript, SmtLibCommand
    import pysmt.smtlib.commands as smtcmd
    sc = SmtLibScript()
    syms = set()
    for f in formulas:
        syms |= set(rs.free_vars(f)) | set(t.function_name() for t in rs.subterms(f) if t.node_type() == op.FUNCTION)
    for ty in sorted(set(str(c) for f in formulas for c in custom_sorts(f))):
        pass
    for sy in sorted(syms, key=lambda x: x.symbol_name()):
        if sy.symbol_type().is_function_type():
            sc.add(name=smtcmd.DECLARE_FUN, args=[sy])
        else:
            sc.add(name=smtcmd.DECLARE_CONST, args=[sy])
    for f in formulas:
        sc.add(name=smtcmd.ASSERT, args=[f])
    sc.add(name=smtcmd.CHECK_SAT, args=[])
    return sc


def check_script(env, inst, timeout_ms=5000):
    kind, formulas = inst
    name = "script"
    res = {"name": name, "status": "ok", "queries": 0, "t": 0.0, "nontrivial": True}
    rp = {"kind": "script", "formulas": [bp.to_bp(f) for f in formulas]}
    if any(custom_sorts(f) for f in formulas):
        return {"name": name, "status": "ok", "skipped": True}
    tr = Z3Tr()
    try:
        zfs = [tr.tr(f) for f in formulas]
    except Untranslatable as e:
        return {"name": name, "status": "ok", "skipped": True}
    for dag in (False, True):
        try:
            buf = io.StringIO()
            with warnings.catch_warnings():
                warnings.simplefilter("ignore")
                script_of(env, formulas).serialize(buf, daggify=dag)
            text = buf.getvalue()
        except Exception as e:
            return {"name": name, "status": "viol", "signature": "script-export/raises:%s" % type(e).__name__,
                    "describe": "serialising a %d-assert script (daggify=%s) raises %r" % (len(formulas), dag, e), "replay": rp}
        try:
            asserts = z3_read(text)
        except z3.Z3Exception as e:
            return {"name": name, "status": "viol", "signature": "script-export/rejected",
                    "describe": "independent reader rejects the %d-assert script %r: %s" % (len(formulas), text[:500], str(e)[:200]),
                    "replay": rp}
        if len(asserts) != len(formulas):
            return {"name": name, "status": "viol", "signature": "script-export/assert-count",
                    "describe": "%d assertions read from a script with %d: %r" % (len(asserts), len(formulas), text[:300]), "replay": rp}
        for k, (zt, zf) in enumerate(zip(asserts, zfs)):
            if zt.eq(zf):
                continue
            st, mo, dt = tv.check_valid(zt == zf, timeout_ms, premises=tr.defined)
            res["queries"] += 1
            res["t"] += dt
            if st == "sat":
                return {"name": name, "status": "viol", "signature": "script-export/meaning", "queried": True, "t": res["t"],
                        "describe": "assert #%d of the script %s (daggify=%s) is written as %r and read as %s (model %s)"
                                    % (k, [f.serialize()[:80] for f in formulas], dag, text[:500], str(zt)[:200], mo), "replay": rp}
            if st != "unsat":
                return {"name": "script:%s" % formulas[k].serialize()[:100], "status": "inconc", "reason": "unknown %s" % mo,
                        "queries": res["queries"], "t": res["t"]}
    res["sample"] = {"script": [f.serialize()[:80] for f in formulas], "verdict": "every assert of the tree and DAG text equals its formula"}
    return res


tv.register("c07-script", gen_script, check_script)


# ---- sort declarations: every sort constructor and every sort argument is declared before use, with its arity ---------------------
def gen_sorts(env, tier):
    tm = env.type_manager
    m = env.formula_manager
    out = []
    S0, T0 = tm.Type("S0", 0), tm.Type("T0", 0)
    Lst, Pair, Tri = tm.Type("Lst", 1), tm.Type("Pair", 2), tm.Type("Tri", 3)
    sorts = [S0, Lst(S0), Lst(T.INT), Lst(Lst(S0)), Pair(S0, T0), Pair(T.INT, S0), Pair(Lst(S0), T0), Tri(S0, T.BOOL, T0),
             Lst(tm.BVType(4)), tm.ArrayType(T.INT, Lst(S0)), tm.ArrayType(Lst(S0), T.INT), Lst(Pair(S0, T0)),
             tm.ArrayType(Pair(S0, T.INT), Lst(T0))]
    for k, ty in enumerate(sorts):
        x, y = m.Symbol("x%d" % k, ty), m.Symbol("y%d" % k, ty)
        out.append(("eq", m.Equals(x, y)))
        fn = m.Symbol("fn%d" % k, tm.FunctionType(T.BOOL, [ty]))
        out.append(("pred", m.Function(fn, [x])))
        gn = m.Symbol("gn%d" % k, tm.FunctionType(ty, [T.INT]))
        out.append(("fun-result", m.Equals(m.Function(gn, [m.Int(0)]), m.Function(gn, [m.Int(1)]))))
        if not ty.is_array_type():
            out.append(("quantified", m.ForAll([m.Symbol("q%d" % k, T.INT)], m.Equals(m.Function(gn, [m.Symbol("q%d" % k, T.INT)]), x))))
    return out


def sexprs(text):
    """tiny s-expression reader (own; atoms as strings, lists as Python lists)"""
    toks = re.findall(r'\(|\)|\|[^|]*\||"(?:[^"]|"")*"|[^\s()]+', text)
    stack = [[]]
    for t in toks:
        if t == "(":
            stack.append([])
        elif t == ")":
            x = stack.pop()
            stack[-1].append(x)
        else:
            stack[-1].append(t)
    return stack[0]


BUILTIN_SORTS = {"Int": 0, "Real": 0, "Bool": 0, "String": 0, "Array": 2}


def sort_uses(sx, declared, errors, where):
    """sx: a sort s-expression; every constructor must be declared with the arity it is used at"""
    if isinstance(sx, str):
        head, args = sx, []
    elif sx and sx[0] == "_" and len(sx) == 3 and sx[1] == "BitVec":
        return
    else:
        head, args = sx[0], sx[1:]
    ar = BUILTIN_SORTS.get(head, declared.get(head))
    if ar is None:
        errors.append("sort %s used in %s before any declaration" % (head, where))
    elif ar != len(args):
        errors.append("sort %s declared with arity %d, used with %d arguments in %s" % (head, ar, len(args), where))
    for a in args:
        sort_uses(a, declared, errors, where)


def check_sorts(env, inst, timeout_ms=5000):
    kind, f = inst
    name = "sorts"
    rp = {"kind": "sorts", "formula": bp.to_bp(f)}
    for dag in (False, True):
        try:
            text = script_text(f, dag)
        except Exception as e:
            return {"name": name, "status": "viol", "signature": "sort-decl/raises:%s" % type(e).__name__,
                    "describe": "smtlibscript_from_formula(%s) raises %r" % (f.serialize(), e), "replay": rp}
        declared = {}
        errors = []
        for cmd in sexprs(text):
            if not isinstance(cmd, list) or not cmd:
                continue
            if cmd[0] == "declare-sort":
                if cmd[1] in declared:
                    errors.append("sort %s declared twice" % cmd[1])
                declared[cmd[1]] = int(cmd[2]) if len(cmd) > 2 else 0
            elif cmd[0] == "declare-fun":
                for p in cmd[2]:
                    sort_uses(p, declared, errors, "declare-fun " + cmd[1])
                sort_uses(cmd[3], declared, errors, "declare-fun " + cmd[1])
            elif cmd[0] == "declare-const":
                sort_uses(cmd[2], declared, errors, "declare-const " + cmd[1])
        if errors:
            return {"name": name, "status": "viol", "signature": "sort-decl/" + kind,
                    "describe": "%s exported as %r: %s" % (f.serialize(), text[:400], "; ".join(errors[:3])), "replay": rp}
        # the independent reader must accept the text as well
        try:
            asserts = z3_read(text)
        except z3.Z3Exception as e:
            return {"name": name, "status": "viol", "signature": "sort-decl/rejected/" + kind,
                    "describe": "independent reader rejects %r: %s" % (text[:400], str(e)[:200]), "replay": rp}
        if len(asserts) != 1:
            return {"name": name, "status": "viol", "signature": "sort-decl/assert-count", "describe": text[:300], "replay": rp}
    return {"name": name, "status": "ok", "nontrivial": True, "queried": True,
            "sample": {"formula": f.serialize()[:120], "verdict": "every sort constructor declared once, before use, with the arity used; "
                       "z3 accepts tree and DAG text"}}


tv.register("c07-sorts", gen_sorts, check_sorts)


def replay(data):
    env = tv.fresh_env()
    if data.get("kind") == "quote":
        from pysmt.utils import quote
        nm = data["name"]
        q = quote(nm)
        ok = re.match(r"^[~!@$%^&*_\-+=<>.?/A-Za-z][~!@$%^&*_\-+=<>.?/A-Za-z0-9]*$", nm) is not None
        if q == nm and not ok:
            return True, "quote(%r) = %r unquoted" % (nm, q)
        return False, "quote(%r) = %r" % (nm, q)
    if data.get("kind") == "script":
        r = check_script(env, ("replay", [bp.from_bp(b, env) for b in data["formulas"]]), timeout_ms=20000)
        return (True, r["describe"]) if r["status"] == "viol" else (False, "status=%s" % r["status"])
    if data.get("kind") == "sorts":
        r = check_sorts(env, ("replay", bp.from_bp(data["formula"], env)))
        return (True, r["describe"]) if r["status"] == "viol" else (False, "status=%s" % r["status"])
    f = bp.from_bp(data["formula"], env)
    r = check_export(env, f, timeout_ms=20000)
    if r["status"] == "viol":
        return True, r["describe"]
    return False, "status=%s %s" % (r["status"], r.get("reason", ""))


def run(run, only=None):
    run.functions = [{"module": "pysmt/smtlib/printers.py, pysmt/smtlib/script.py, pysmt/typing.py, pysmt/utils.py",
                      "what": "SmtPrinter, SmtDagPrinter, smtlibscript_from_formula, SmtLibCommand.serialize, as_smtlib, quote",
                      "sha1": core.src_sha("pysmt/smtlib/printers.py", "pysmt/smtlib/script.py", "pysmt/typing.py", "pysmt/utils.py")}]
    run.bounds = {"formulas": "Boolean-typed instances of the C01 grammar (level 1 complete, stride of level 2), widths 1,4 "
                              "(quick) / 1,2,3,4,8; boundary constants (2^64+1, -2^63, 10^30, 10^30/3, 1/10^20); string "
                              "literals with quotes/backslashes; DAG sharing depth 4; user symbols named .def_0/.def_1; "
                              "custom sorts; 23 names needing quotes", "printers": "tree and DAG",
                  "scripts": "3- and 4-assert scripts whose commands share compound sub-terms (one printer instance per script)",
                  "sort declarations": "sort constructors of arity 0-3, nested, below arrays and in function signatures",
                  "interpretations": "all (z3 validity)", "names": "simple-symbol regex: all lengths (regex inclusion)"}
    run.outside = ["operators z3 has no reading for (pow, algebraic constants): serialisation is exercised but the text is "
                   "not checked by the independent reader", "non-ASCII string literals (reader decodes bytes)",
                   "names containing | or \\ (not writable in SMT-LIB)", "OMT commands"]
    run.assumptions = ["z3's SMT-LIB front end reads text per the standard (it is more permissive: Int/Real coercions)"]
    if not only or "export" in only:
        tv.run_family(run, "c07-export", run.tier)
    if not only or "script" in only:
        tv.run_family(run, "c07-script", run.tier)
    if not only or "sorts" in only:
        tv.run_family(run, "c07-sorts", run.tier)
    if not only or "quote" in only:
        check_quote_regex(run)
    run.extra["programs"] = run.evaluations
