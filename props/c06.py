"""C06 - derived constructors and infix operators denote what their names say (engine TV).

Every derived form is applied to symbols (or a symbol and a Python literal) and compared, for ALL values
of the symbols, with a z3 term written directly from the documented meaning."""
import itertools

import z3

from pysmt import typing as T

from engine import blueprint as bp
from engine import core
from engine.ref.tr_z3 import Z3Tr, Untranslatable
from engine.tv import driver as tv

LEVEL = "translation_validation"


def z3min(xs, le):
    r = xs[0]
    for x in xs[1:]:
        r = z3.If(le(r, x), r, x)
    return r


def z3max(xs, le):
    r = xs[0]
    for x in xs[1:]:
        r = z3.If(le(r, x), x, r)
    return r


def smod_ref(a, b):
    return z3.SMod(a, b) if hasattr(z3, "SMod") else a % b


class Case(object):
    __slots__ = ("name", "build", "expect", "raises")

    def __init__(self, name, build, expect=None, raises=False):
        self.name = name
        self.build = build      # (env, S) -> FNode       S: symbol table
        self.expect = expect    # (tr, S) -> z3 term
        self.raises = raises    # the documented behaviour is to raise


class Syms(object):
    def __init__(self, env, widths):
        m = env.formula_manager
        tm = env.type_manager
        self.m = m
        self.B = [m.Symbol("b%d" % k, T.BOOL) for k in range(5)]
        self.I = [m.Symbol("i%d" % k, T.INT) for k in range(5)]
        self.R = [m.Symbol("r%d" % k, T.REAL) for k in range(5)]
        self.S = [m.Symbol("s%d" % k, T.STRING) for k in range(3)]
        self.V = {w: [m.Symbol("v%d_%d" % (w, k), tm.BVType(w)) for k in range(5)] for w in widths}
        self.A = m.Symbol("arr", tm.ArrayType(T.INT, T.INT))
        self.fI = m.Symbol("fI", tm.FunctionType(T.INT, [T.INT, T.INT]))
        self.fR = m.Symbol("fR", tm.FunctionType(T.REAL, [T.REAL]))
        self.fB = m.Symbol("fB", tm.FunctionType(T.BOOL, [T.BOOL]))
        self.fV = {w: m.Symbol("fV%d" % w, tm.FunctionType(tm.BVType(w), [tm.BVType(w)])) for w in widths}
        self.widths = widths


def cases(env, tier):
    widths = (1, 2, 3, 4, 8) if tier == "quick" else (1, 2, 3, 4, 5, 8, 16)
    S = Syms(env, widths)
    m = env.formula_manager
    from pysmt import shortcuts as sc
    out = []
    Z = lambda tr, s: tr.symbol(s)

    def add(name, build, expect=None, raises=False):
        out.append(Case(name, build, expect, raises))

    # ---- arithmetic / Boolean derived constructors
    for nm, ty in (("I", S.I), ("R", S.R)):
        x, y = ty[0], ty[1]
        add("GE/" + nm, lambda e, S, x=x, y=y: m.GE(x, y), lambda tr, S, x=x, y=y: Z(tr, x) >= Z(tr, y))
        add("GT/" + nm, lambda e, S, x=x, y=y: m.GT(x, y), lambda tr, S, x=x, y=y: Z(tr, x) > Z(tr, y))
        add("NotEquals/" + nm, lambda e, S, x=x, y=y: m.NotEquals(x, y), lambda tr, S, x=x, y=y: Z(tr, x) != Z(tr, y))
        add("EqualsOrIff/" + nm, lambda e, S, x=x, y=y: m.EqualsOrIff(x, y), lambda tr, S, x=x, y=y: Z(tr, x) == Z(tr, y))
        add("Abs/" + nm, lambda e, S, x=x: sc.Abs(x), lambda tr, S, x=x: z3.If(Z(tr, x) >= 0, Z(tr, x), -Z(tr, x)))
        for n in range(1, 6):
            xs = ty[:n]
            add("Min/%s/%d" % (nm, n), lambda e, S, xs=xs: m.Min(*xs),
                lambda tr, S, xs=xs: z3min([Z(tr, x) for x in xs], lambda a, b: a <= b))
            add("Max/%s/%d" % (nm, n), lambda e, S, xs=xs: m.Max(xs),
                lambda tr, S, xs=xs: z3max([Z(tr, x) for x in xs], lambda a, b: a <= b))
        # infix with FNode and with literals
        add("infix +/" + nm, lambda e, S, x=x, y=y: x + y, lambda tr, S, x=x, y=y: Z(tr, x) + Z(tr, y))
        add("infix -/" + nm, lambda e, S, x=x, y=y: x - y, lambda tr, S, x=x, y=y: Z(tr, x) - Z(tr, y))
        add("infix */" + nm, lambda e, S, x=x, y=y: x * y, lambda tr, S, x=x, y=y: Z(tr, x) * Z(tr, y))
        add("infix neg/" + nm, lambda e, S, x=x: -x, lambda tr, S, x=x: -Z(tr, x))
        for k in (0, 1, -1, 3, -7):
            add("infix x+%d/%s" % (k, nm), lambda e, S, x=x, k=k: x + k, lambda tr, S, x=x, k=k: Z(tr, x) + k)
            add("infix %d+x/%s" % (k, nm), lambda e, S, x=x, k=k: k + x, lambda tr, S, x=x, k=k: k + Z(tr, x))
            add("infix x-%d/%s" % (k, nm), lambda e, S, x=x, k=k: x - k, lambda tr, S, x=x, k=k: Z(tr, x) - k)
            add("infix %d-x/%s" % (k, nm), lambda e, S, x=x, k=k: k - x, lambda tr, S, x=x, k=k: k - Z(tr, x))
            add("infix x*%d/%s" % (k, nm), lambda e, S, x=x, k=k: x * k, lambda tr, S, x=x, k=k: Z(tr, x) * k)
            add("infix %d*x/%s" % (k, nm), lambda e, S, x=x, k=k: k * x, lambda tr, S, x=x, k=k: k * Z(tr, x))
            add("infix x<%d/%s" % (k, nm), lambda e, S, x=x, k=k: x < k, lambda tr, S, x=x, k=k: Z(tr, x) < k)
            add("infix x<=%d/%s" % (k, nm), lambda e, S, x=x, k=k: x <= k, lambda tr, S, x=x, k=k: Z(tr, x) <= k)
            add("infix x>%d/%s" % (k, nm), lambda e, S, x=x, k=k: x > k, lambda tr, S, x=x, k=k: Z(tr, x) > k)
            add("infix x>=%d/%s" % (k, nm), lambda e, S, x=x, k=k: x >= k, lambda tr, S, x=x, k=k: Z(tr, x) >= k)
            add("method Equals(%d)/%s" % (k, nm), lambda e, S, x=x, k=k: x.Equals(k), lambda tr, S, x=x, k=k: Z(tr, x) == k)
            add("method NotEquals(%d)/%s" % (k, nm), lambda e, S, x=x, k=k: x.NotEquals(k), lambda tr, S, x=x, k=k: Z(tr, x) != k)
        add("infix </" + nm, lambda e, S, x=x, y=y: x < y, lambda tr, S, x=x, y=y: Z(tr, x) < Z(tr, y))
        add("infix <=/" + nm, lambda e, S, x=x, y=y: x <= y, lambda tr, S, x=x, y=y: Z(tr, x) <= Z(tr, y))
        add("infix >/" + nm, lambda e, S, x=x, y=y: x > y, lambda tr, S, x=x, y=y: Z(tr, x) > Z(tr, y))
        add("infix >=/" + nm, lambda e, S, x=x, y=y: x >= y, lambda tr, S, x=x, y=y: Z(tr, x) >= Z(tr, y))
    # real division by a literal / symbol
    r0, r1 = S.R[0], S.R[1]
    add("infix r/2", lambda e, S: r0 / 2, lambda tr, S: Z(tr, r0) / 2)
    add("infix r/r", lambda e, S: r0 / r1, lambda tr, S: Z(tr, r0) / Z(tr, r1))
    add("Div(r, 4)", lambda e, S: m.Div(r0, m.Real(4)), lambda tr, S: Z(tr, r0) / 4)
    add("Div(r, -1/3)", lambda e, S: m.Div(r0, m.Real((-1, 3))), lambda tr, S: Z(tr, r0) * -3)
    # Boolean
    b = S.B
    # degenerate arities of the n-ary constructors (empty and singleton argument lists, in every calling convention)
    add("And/0", lambda e, S: m.And(), lambda tr, S: z3.BoolVal(True))
    add("And/0-list", lambda e, S: m.And([]), lambda tr, S: z3.BoolVal(True))
    add("Or/0", lambda e, S: m.Or(), lambda tr, S: z3.BoolVal(False))
    add("Or/0-list", lambda e, S: m.Or([]), lambda tr, S: z3.BoolVal(False))
    add("And/1", lambda e, S: m.And(b[0]), lambda tr, S: Z(tr, b[0]))
    add("And/1-list", lambda e, S: m.And([b[0]]), lambda tr, S: Z(tr, b[0]))
    add("Or/1", lambda e, S: m.Or([b[1]]), lambda tr, S: Z(tr, b[1]))
    add("Plus/1", lambda e, S: m.Equals(m.Plus(S.I[0]), S.I[1]), lambda tr, S: Z(tr, S.I[0]) == Z(tr, S.I[1]))
    add("Times/1", lambda e, S: m.Equals(m.Times([S.I[0]]), S.I[1]), lambda tr, S: Z(tr, S.I[0]) == Z(tr, S.I[1]))
    add("Plus/0", lambda e, S: m.Plus(), None, raises=True)
    add("Times/0", lambda e, S: m.Times([]), None, raises=True)
    add("And/and-of-generator", lambda e, S: m.And(x for x in b[:3]), lambda tr, S: z3.And(*[Z(tr, x) for x in b[:3]]))
    add("Exists/0", lambda e, S: m.Exists([], b[0]), lambda tr, S: Z(tr, b[0]))
    add("Function/0", lambda e, S: m.Equals(m.Function(S.I[0], []), S.I[1]), lambda tr, S: Z(tr, S.I[0]) == Z(tr, S.I[1]))
    add("Xor", lambda e, S: m.Xor(b[0], b[1]), lambda tr, S: z3.Xor(Z(tr, b[0]), Z(tr, b[1])))
    add("EqualsOrIff/B", lambda e, S: m.EqualsOrIff(b[0], b[1]), lambda tr, S: Z(tr, b[0]) == Z(tr, b[1]))
    add("infix &/B", lambda e, S: b[0] & b[1], lambda tr, S: z3.And(Z(tr, b[0]), Z(tr, b[1])))
    add("infix |/B", lambda e, S: b[0] | b[1], lambda tr, S: z3.Or(Z(tr, b[0]), Z(tr, b[1])))
    add("infix ^/B", lambda e, S: b[0] ^ b[1], lambda tr, S: z3.Xor(Z(tr, b[0]), Z(tr, b[1])))
    add("infix ~/B", lambda e, S: ~b[0], lambda tr, S: z3.Not(Z(tr, b[0])))
    add("infix &True/B", lambda e, S: b[0] & True, lambda tr, S: Z(tr, b[0]))
    add("infix |False/B", lambda e, S: b[0] | False, lambda tr, S: Z(tr, b[0]))
    add("infix True&/B", lambda e, S: True & b[0], lambda tr, S: Z(tr, b[0]))
    add("infix ^True/B", lambda e, S: b[0] ^ True, lambda tr, S: z3.Not(Z(tr, b[0])))
    add("method Implies", lambda e, S: b[0].Implies(b[1]), lambda tr, S: z3.Implies(Z(tr, b[0]), Z(tr, b[1])))
    add("method Iff", lambda e, S: b[0].Iff(b[1]), lambda tr, S: Z(tr, b[0]) == Z(tr, b[1]))
    add("method And", lambda e, S: b[0].And(b[1]), lambda tr, S: z3.And(Z(tr, b[0]), Z(tr, b[1])))
    add("method Or", lambda e, S: b[0].Or(b[1]), lambda tr, S: z3.Or(Z(tr, b[0]), Z(tr, b[1])))
    add("method Ite", lambda e, S: b[0].Ite(S.I[0], S.I[1]), lambda tr, S: z3.If(Z(tr, b[0]), Z(tr, S.I[0]), Z(tr, S.I[1])))
    add("method Implies(False)", lambda e, S: b[0].Implies(False), lambda tr, S: z3.Not(Z(tr, b[0])))
    for n in range(0, 6):
        bs = b[:n]
        add("AtMostOne/%d" % n, lambda e, S, bs=bs: m.AtMostOne(bs),
            lambda tr, S, bs=bs: z3.AtMost(*([Z(tr, x) for x in bs] + [1])) if bs else z3.BoolVal(True))
        add("ExactlyOne/%d" % n, lambda e, S, bs=bs: m.ExactlyOne(bs),
            lambda tr, S, bs=bs: z3.PbEq([(Z(tr, x), 1) for x in bs], 1) if bs else z3.BoolVal(False))
        add("ExactlyOne*/%d" % n, lambda e, S, bs=bs: m.ExactlyOne(*bs),
            lambda tr, S, bs=bs: z3.PbEq([(Z(tr, x), 1) for x in bs], 1) if bs else z3.BoolVal(False))
    for n in range(0, 5):
        for nm, pool in (("I", S.I), ("B", S.B), ("R", S.R), ("V3", S.V[3])):
            xs = pool[:n]

            def exp(tr, S, xs=xs):
                zs = [Z(tr, x) for x in xs]
                cs = [zs[p] != zs[q] for p in range(len(zs)) for q in range(p + 1, len(zs))]
                return z3.And(*cs) if cs else z3.BoolVal(True)
            add("AllDifferent/%s/%d" % (nm, n), lambda e, S, xs=xs: m.AllDifferent(xs), exp)
    # function call infix
    add("infix call fI(x,1)", lambda e, S: S.fI(S.I[0], 1), lambda tr, S: Z(tr, S.fI)(Z(tr, S.I[0]), z3.IntVal(1)))
    add("infix call fR(2)", lambda e, S: S.fR(2), lambda tr, S: Z(tr, S.fR)(z3.RealVal(2)))
    add("infix call fB(True)", lambda e, S: S.fB(True), lambda tr, S: Z(tr, S.fB)(z3.BoolVal(True)))
    add("method Select/Store", lambda e, S: S.A.Store(S.I[0], S.I[1]).Select(S.I[2]),
        lambda tr, S: z3.Select(z3.Store(Z(tr, S.A), Z(tr, S.I[0]), Z(tr, S.I[1])), Z(tr, S.I[2])))

    # ---- bit-vectors (one closure per width: no late binding of x, y, w)
    def per_width(w):
        v = S.V[w]
        x, y = v[0], v[1]
        zx = lambda tr, x=x: Z(tr, x)
        zy = lambda tr, y=y: Z(tr, y)
        tag = "/w%d" % w
        bin_cases = [
            ("BVNand", lambda: m.BVNand(x, y), lambda tr: ~(zx(tr) & zy(tr))),
            ("BVNor", lambda: m.BVNor(x, y), lambda tr: ~(zx(tr) | zy(tr))),
            ("BVXnor", lambda: m.BVXnor(x, y), lambda tr: ~(zx(tr) ^ zy(tr))),
            ("BVUGT", lambda: m.BVUGT(x, y), lambda tr: z3.UGT(zx(tr), zy(tr))),
            ("BVUGE", lambda: m.BVUGE(x, y), lambda tr: z3.UGE(zx(tr), zy(tr))),
            ("BVSGT", lambda: m.BVSGT(x, y), lambda tr: zx(tr) > zy(tr)),
            ("BVSGE", lambda: m.BVSGE(x, y), lambda tr: zx(tr) >= zy(tr)),
            ("BVSMod", lambda: m.BVSMod(x, y), lambda tr: smod_ref(zx(tr), zy(tr))),
            ("BVComp", lambda: m.BVComp(x, y), lambda tr: z3.If(zx(tr) == zy(tr), z3.BitVecVal(1, 1), z3.BitVecVal(0, 1))),
            ("infix +", lambda: x + y, lambda tr: zx(tr) + zy(tr)),
            ("infix -", lambda: x - y, lambda tr: zx(tr) - zy(tr)),
            ("infix *", lambda: x * y, lambda tr: zx(tr) * zy(tr)),
            ("infix /", lambda: x / y, lambda tr: z3.UDiv(zx(tr), zy(tr))),
            ("infix %", lambda: x % y, lambda tr: z3.URem(zx(tr), zy(tr))),
            ("infix <<", lambda: x << y, lambda tr: zx(tr) << zy(tr)),
            ("infix >>", lambda: x >> y, lambda tr: z3.LShR(zx(tr), zy(tr))),
            ("infix &", lambda: x & y, lambda tr: zx(tr) & zy(tr)),
            ("infix |", lambda: x | y, lambda tr: zx(tr) | zy(tr)),
            ("infix ^", lambda: x ^ y, lambda tr: zx(tr) ^ zy(tr)),
            ("infix <", lambda: x < y, lambda tr: z3.ULT(zx(tr), zy(tr))),
            ("infix <=", lambda: x <= y, lambda tr: z3.ULE(zx(tr), zy(tr))),
            ("infix >", lambda: x > y, lambda tr: z3.UGT(zx(tr), zy(tr))),
            ("infix >=", lambda: x >= y, lambda tr: z3.UGE(zx(tr), zy(tr))),
            ("infix ~", lambda: ~x, lambda tr: ~zx(tr)),
            ("infix neg", lambda: -x, lambda tr: -zx(tr)),
            ("method BVSMod", lambda: x.BVSMod(y), lambda tr: smod_ref(zx(tr), zy(tr))),
            ("method BVSDiv", lambda: x.BVSDiv(y), lambda tr: zx(tr) / zy(tr)),
            ("method BVSRem", lambda: x.BVSRem(y), lambda tr: z3.SRem(zx(tr), zy(tr))),
            ("method BVUDiv", lambda: x.BVUDiv(y), lambda tr: z3.UDiv(zx(tr), zy(tr))),
            ("method BVURem", lambda: x.BVURem(y), lambda tr: z3.URem(zx(tr), zy(tr))),
            ("method BVAShr", lambda: x.BVAShr(y), lambda tr: zx(tr) >> zy(tr)),
            ("method BVLShr", lambda: x.BVLShr(y), lambda tr: z3.LShR(zx(tr), zy(tr))),
            ("method BVLShl", lambda: x.BVLShl(y), lambda tr: zx(tr) << zy(tr)),
            ("method BVSLT", lambda: x.BVSLT(y), lambda tr: zx(tr) < zy(tr)),
            ("method BVSLE", lambda: x.BVSLE(y), lambda tr: zx(tr) <= zy(tr)),
            ("method BVSGT", lambda: x.BVSGT(y), lambda tr: zx(tr) > zy(tr)),
            ("method BVSGE", lambda: x.BVSGE(y), lambda tr: zx(tr) >= zy(tr)),
            ("method BVULT", lambda: x.BVULT(y), lambda tr: z3.ULT(zx(tr), zy(tr))),
            ("method BVUGE", lambda: x.BVUGE(y), lambda tr: z3.UGE(zx(tr), zy(tr))),
            ("method BVNand", lambda: x.BVNand(y), lambda tr: ~(zx(tr) & zy(tr))),
            ("method BVXnor", lambda: x.BVXnor(y), lambda tr: ~(zx(tr) ^ zy(tr))),
            ("method BVComp", lambda: x.BVComp(y), lambda tr: z3.If(zx(tr) == zy(tr), z3.BitVecVal(1, 1), z3.BitVecVal(0, 1))),
            ("method BVConcat", lambda: x.BVConcat(y), lambda tr: z3.Concat(zx(tr), zy(tr))),
        ]
        for nm, bld, ex in bin_cases:
            add(nm + tag, lambda e, S, bld=bld: bld(), lambda tr, S, ex=ex: ex(tr))
        # signed / unsigned min, max
        for n in range(1, 6):
            xs = v[:n]
            for sign, le in ((False, z3.ULE), (True, lambda a, b: a <= b)):
                add("MinBV/%s/%d%s" % ("s" if sign else "u", n, tag), lambda e, S, xs=xs, sign=sign: m.MinBV(sign, *xs),
                    lambda tr, S, xs=xs, le=le: z3min([Z(tr, q) for q in xs], le))
                add("MaxBV/%s/%d%s" % ("s" if sign else "u", n, tag), lambda e, S, xs=xs, sign=sign: m.MaxBV(sign, xs),
                    lambda tr, S, xs=xs, le=le: z3max([Z(tr, q) for q in xs], le))
        # n-ary forms
        for n in range(1, 5):
            xs = v[:n]

            def fold(fn, xs=xs):
                def ex(tr, S):
                    zs = [Z(tr, q) for q in xs]
                    r = zs[0]
                    for q in zs[1:]:
                        r = fn(r, q)
                    return r
                return ex
            add("BVAnd/%d%s" % (n, tag), lambda e, S, xs=xs: m.BVAnd(*xs), fold(lambda p, q: p & q))
            add("BVOr/%d%s" % (n, tag), lambda e, S, xs=xs: m.BVOr(xs), fold(lambda p, q: p | q))
            add("BVAdd/%d%s" % (n, tag), lambda e, S, xs=xs: m.BVAdd(*xs), fold(lambda p, q: p + q))
            add("BVMul/%d%s" % (n, tag), lambda e, S, xs=xs: m.BVMul(xs), fold(lambda p, q: p * q))
            if n >= 2 and w <= 8:
                add("BVConcat/%d%s" % (n, tag), lambda e, S, xs=xs: m.BVConcat(*xs), fold(lambda p, q: z3.Concat(p, q)))
        if w <= 8:
            for cnt in range(1, 5):
                add("BVRepeat/%d%s" % (cnt, tag), lambda e, S, cnt=cnt: m.BVRepeat(x, cnt),
                    lambda tr, S, cnt=cnt: z3.RepeatBitVec(cnt, zx(tr)))
                add("method BVRepeat/%d%s" % (cnt, tag), lambda e, S, cnt=cnt: x.BVRepeat(cnt),
                    lambda tr, S, cnt=cnt: z3.RepeatBitVec(cnt, zx(tr)))
        # shifts by a Python integer: each amount 0..w+1 ; amounts that do not fit the width must raise
        for k in range(0, w + 3):
            fits = k < 2 ** w
            add("BVLShl(int %d)%s" % (k, tag), lambda e, S, k=k: m.BVLShl(x, k),
                (lambda tr, S, k=k: zx(tr) << z3.BitVecVal(k, w)) if fits else None, raises=not fits)
            add("BVLShr(int %d)%s" % (k, tag), lambda e, S, k=k: m.BVLShr(x, k),
                (lambda tr, S, k=k: z3.LShR(zx(tr), z3.BitVecVal(k, w))) if fits else None, raises=not fits)
            add("BVAShr(int %d)%s" % (k, tag), lambda e, S, k=k: m.BVAShr(x, k),
                (lambda tr, S, k=k: zx(tr) >> z3.BitVecVal(k, w)) if fits else None, raises=not fits)
            add("infix <<%d%s" % (k, tag), lambda e, S, k=k: x << k,
                (lambda tr, S, k=k: zx(tr) << z3.BitVecVal(k, w)) if fits else None, raises=not fits)
            add("infix >>%d%s" % (k, tag), lambda e, S, k=k: x >> k,
                (lambda tr, S, k=k: z3.LShR(zx(tr), z3.BitVecVal(k, w))) if fits else None, raises=not fits)
        # literal promotion in arithmetic infix
        for k in sorted(set([0, 1, 2 ** w - 1, 2 ** (w - 1)])):
            add("infix x+%d%s" % (k, tag), lambda e, S, k=k: x + k, lambda tr, S, k=k: zx(tr) + z3.BitVecVal(k, w))
            add("infix %d+x%s" % (k, tag), lambda e, S, k=k: k + x, lambda tr, S, k=k: z3.BitVecVal(k, w) + zx(tr))
            add("infix x-%d%s" % (k, tag), lambda e, S, k=k: x - k, lambda tr, S, k=k: zx(tr) - z3.BitVecVal(k, w))
            add("infix %d-x%s" % (k, tag), lambda e, S, k=k: k - x, lambda tr, S, k=k: z3.BitVecVal(k, w) - zx(tr))
            add("infix x*%d%s" % (k, tag), lambda e, S, k=k: x * k, lambda tr, S, k=k: zx(tr) * z3.BitVecVal(k, w))
            add("infix x&%d%s" % (k, tag), lambda e, S, k=k: x & k, lambda tr, S, k=k: zx(tr) & z3.BitVecVal(k, w))
            add("infix %d|x%s" % (k, tag), lambda e, S, k=k: k | x, lambda tr, S, k=k: z3.BitVecVal(k, w) | zx(tr))
            add("infix x^%d%s" % (k, tag), lambda e, S, k=k: x ^ k, lambda tr, S, k=k: zx(tr) ^ z3.BitVecVal(k, w))
            add("infix x<%d%s" % (k, tag), lambda e, S, k=k: x < k, lambda tr, S, k=k: z3.ULT(zx(tr), z3.BitVecVal(k, w)))
            add("infix x>=%d%s" % (k, tag), lambda e, S, k=k: x >= k, lambda tr, S, k=k: z3.UGE(zx(tr), z3.BitVecVal(k, w)))
            add("infix x/%d%s" % (k, tag), lambda e, S, k=k: x / k, lambda tr, S, k=k: z3.UDiv(zx(tr), z3.BitVecVal(k, w)))
            add("infix x%%%d%s" % (k, tag), lambda e, S, k=k: x % k, lambda tr, S, k=k: z3.URem(zx(tr), z3.BitVecVal(k, w)))
            add("method Equals(%d)%s" % (k, tag), lambda e, S, k=k: x.Equals(k), lambda tr, S, k=k: zx(tr) == z3.BitVecVal(k, w))
        add("infix x+2^w" + tag, lambda e, S: x + 2 ** w, None, raises=True)
        add("infix x+(-1)" + tag, lambda e, S: x + (-1), None, raises=True)
        # signed constants
        for sv in sorted(set([-(2 ** (w - 1)), -1, 0, 2 ** (w - 1) - 1, -(2 ** (w - 1)) + 1])):
            add("SBV(%d)%s" % (sv, tag), lambda e, S, sv=sv: m.Equals(x, m.SBV(sv, w)),
                lambda tr, S, sv=sv: zx(tr) == z3.BitVecVal(sv, w))
        add("SBV(min-1)" + tag, lambda e, S: m.SBV(-(2 ** (w - 1)) - 1, w), None, raises=True)
        add("SBV(max+1)" + tag, lambda e, S: m.SBV(2 ** (w - 1), w), None, raises=True)
        add("BVOne" + tag, lambda e, S: m.Equals(x, m.BVOne(w)), lambda tr, S: zx(tr) == z3.BitVecVal(1, w))
        add("BVZero" + tag, lambda e, S: m.Equals(x, m.BVZero(w)), lambda tr, S: zx(tr) == z3.BitVecVal(0, w))
        # slicing, rotation, extension through infix/methods
        for st in range(w):
            for en in range(st, w):
                add("infix x[%d:%d]%s" % (st, en, tag), lambda e, S, st=st, en=en: x[st:en],
                    lambda tr, S, st=st, en=en: z3.Extract(en, st, zx(tr)))
            add("infix x[%d]%s" % (st, tag), lambda e, S, st=st: x[st], lambda tr, S, st=st: z3.Extract(st, st, zx(tr)))
            add("infix x[:%d]%s" % (st, tag), lambda e, S, st=st: x[:st], lambda tr, S, st=st: z3.Extract(st, 0, zx(tr)))
            add("method BVExtract(%d)%s" % (st, tag), lambda e, S, st=st: m.BVExtract(x, st),
                lambda tr, S, st=st: z3.Extract(w - 1, st, zx(tr)))
        for k in range(0, w + 1):
            add("method BVRol(%d)%s" % (k, tag), lambda e, S, k=k: x.BVRol(k), lambda tr, S, k=k: z3.RotateLeft(zx(tr), k))
            add("method BVRor(%d)%s" % (k, tag), lambda e, S, k=k: x.BVRor(k), lambda tr, S, k=k: z3.RotateRight(zx(tr), k))
        for k in (0, 1, 3):
            add("method BVZExt(%d)%s" % (k, tag), lambda e, S, k=k: x.BVZExt(k),
                lambda tr, S, k=k: z3.ZeroExt(k, zx(tr)) if k else zx(tr))
            add("method BVSExt(%d)%s" % (k, tag), lambda e, S, k=k: x.BVSExt(k),
                lambda tr, S, k=k: z3.SignExt(k, zx(tr)) if k else zx(tr))
        add("infix call fV(x)" + tag, lambda e, S: S.fV[w](x), lambda tr, S: Z(tr, S.fV[w])(zx(tr)))
        add("infix call fV(1)" + tag, lambda e, S: S.fV[w](1), lambda tr, S: Z(tr, S.fV[w])(z3.BitVecVal(1, w)))

    for _w in widths:
        per_width(_w)
    return S, out


def gen(env, tier):
    S, cs = cases(env, tier)
    return [(S, c) for c in cs]


def check(env, inst, timeout_ms=10000):
    S, c = inst
    name = c.name
    rp = {"case": c.name}
    try:
        f = c.build(env, S)
    except Exception as e:
        if c.raises:
            return {"name": name, "status": "ok", "nontrivial": True}
        return {"name": name, "status": "viol", "signature": "derived/%s/raises:%s" % (c.name.split("/w")[0], type(e).__name__),
                "describe": "%s raises %r" % (c.name, e), "replay": rp}
    if c.raises:
        return {"name": name, "status": "viol", "signature": "derived/%s/accepted" % c.name.split("/w")[0],
                "describe": "%s should be rejected but returned %s" % (c.name, f.serialize()), "replay": rp}
    tr = Z3Tr()
    try:
        zf = tr.tr(f)
        ze = c.expect(tr, S)
    except Untranslatable as e:
        return {"name": name, "status": "inconc", "reason": str(e)}
    if not zf.sort().eq(ze.sort()):
        return {"name": name, "status": "viol", "signature": "derived/%s/sort" % c.name.split("/w")[0],
                "describe": "%s = %s has sort %s, expected %s" % (c.name, f.serialize(), zf.sort(), ze.sort()), "replay": rp}
    if zf.eq(ze):
        return {"name": name, "status": "ok", "same": True, "nontrivial": True}
    st, mo, dt = tv.check_valid(zf == ze, timeout_ms, premises=tr.defined)
    res = {"name": name, "status": "ok", "queried": True, "t": dt, "nontrivial": True}
    if st == "unsat":
        res["sample"] = {"case": c.name, "built": f.serialize()[:200], "expected": str(ze)[:200],
                         "verdict": "equal for all argument values"}
        return res
    if st == "sat":
        return {"name": name, "status": "viol", "signature": "derived/%s/value" % c.name.split("/w")[0], "queried": True, "t": dt,
                "describe": "%s = %s differs from %s under %s" % (c.name, f.serialize()[:300], str(ze)[:200], mo),
                "replay": rp}
    return {"name": name, "status": "inconc", "reason": "unknown %s" % mo, "queried": True, "t": dt}


tv.register("c06-derived", gen, check)


# ---- infix operators / methods applied to COMPOUND operands (the operator code may look at the operand's shape) -----------------
def gen_shapes(env, tier):
    from engine.tv.grammar import Grammar, dedup
    g = Grammar(env, widths=(2,), quantifiers=False, uf=False)
    l1 = dedup(g.level1())
    reps = g.representatives(l1)
    m = env.formula_manager
    pools = {}
    for srt in (g.B, g.I, g.R):
        pools[srt] = list(g.sym[srt]) + list(g.const.get(srt, [])[:3]) + [t for t in reps if env.stc.get_type(t) == srt]
    bv = [t for t in g.sym if t.is_bv_type()][0]
    pools[bv] = list(g.sym[bv]) + list(g.const.get(bv, [])[:2]) + [t for t in reps if env.stc.get_type(t) == bv]
    # n-ary products / sums with a constant in every position (shapes a binary representative does not have)
    i, j = g.sym[g.I]
    r, q = g.sym[g.R]
    pools[g.I] += [m.Times(i, m.Int(-1), j), m.Times(m.Int(-1), i, j), m.Times(i, j, m.Int(-1)), m.Times(i, m.Int(-1)), m.Times(m.Int(-1), i),
                   m.Plus(i, m.Int(-1), j), m.Minus(m.Int(0), i), m.Times(i, m.Int(-1), m.Int(3))]
    pools[g.R] += [m.Times(r, m.Real(-1), q), m.Times(m.Real(-1), r, q), m.Times(r, m.Real(-1)), m.Minus(m.Real(0), r), m.Div(r, m.Real(-1))]
    stride = 3 if tier == "quick" else 1
    out = []
    arith = [("neg", 1), ("+", 2), ("-", 2), ("<", 2), ("<=", 2), (">", 2), (">=", 2), ("Equals", 2), ("NotEquals", 2), ("*c", 1), ("c-", 1),
             ("Ite", 2)]
    for srt in (g.I, g.R):
        for nm, ar in arith:
            for x in pools[srt]:
                if ar == 1:
                    out.append((nm, srt, x, None))
                else:
                    for y in pools[srt][::stride]:
                        out.append((nm, srt, x, y))
    for nm, ar in (("&", 2), ("|", 2), ("^", 2), ("~", 1), ("Implies", 2), ("Iff", 2), ("And", 2), ("Or", 2)):
        for x in pools[g.B]:
            if ar == 1:
                out.append((nm, g.B, x, None))
            else:
                for y in pools[g.B][::stride]:
                    out.append((nm, g.B, x, y))
    for nm, ar in (("neg", 1), ("~", 1), ("+", 2), ("-", 2), ("*", 2), ("&", 2), ("|", 2), ("^", 2), ("<", 2), ("<=", 2), (">", 2), (">=", 2),
                   ("/", 2), ("%", 2), ("<<", 2), (">>", 2), ("BVSLT", 2), ("BVSGE", 2), ("BVComp", 2), ("Equals", 2)):
        for x in pools[bv]:
            if ar == 1:
                out.append((nm, bv, x, None))
            else:
                for y in pools[bv][::stride]:
                    out.append((nm, bv, x, y))
    return out


def shape_apply(nm, srt, x, y, m):
    isbv = srt.is_bv_type()
    table = {
        "neg": lambda: -x, "+": lambda: x + y, "-": lambda: x - y, "<": lambda: x < y, "<=": lambda: x <= y, ">": lambda: x > y,
        ">=": lambda: x >= y, "Equals": lambda: x.Equals(y), "NotEquals": lambda: x.NotEquals(y), "*c": lambda: x * 3, "c-": lambda: 7 - x,
        "Ite": lambda: (x < y).Ite(x, y) if not isbv else None, "&": lambda: x & y, "|": lambda: x | y, "^": lambda: x ^ y, "~": lambda: ~x,
        "Implies": lambda: x.Implies(y), "Iff": lambda: x.Iff(y), "And": lambda: x.And(y), "Or": lambda: x.Or(y), "*": lambda: x * y,
        "/": lambda: x / y, "%": lambda: x % y, "<<": lambda: x << y, ">>": lambda: x >> y, "BVSLT": lambda: x.BVSLT(y),
        "BVSGE": lambda: x.BVSGE(y), "BVComp": lambda: x.BVComp(y)}
    return table[nm]()


def shape_expect(nm, srt, zx, zy):
    isbv = srt.is_bv_type()
    if isbv:
        w = srt.width
        table = {"neg": lambda: -zx, "~": lambda: ~zx, "+": lambda: zx + zy, "-": lambda: zx - zy, "*": lambda: zx * zy, "&": lambda: zx & zy,
                 "|": lambda: zx | zy, "^": lambda: zx ^ zy, "<": lambda: z3.ULT(zx, zy), "<=": lambda: z3.ULE(zx, zy),
                 ">": lambda: z3.UGT(zx, zy), ">=": lambda: z3.UGE(zx, zy), "/": lambda: z3.UDiv(zx, zy), "%": lambda: z3.URem(zx, zy),
                 "<<": lambda: zx << zy, ">>": lambda: z3.LShR(zx, zy), "BVSLT": lambda: zx < zy, "BVSGE": lambda: zx >= zy,
                 "BVComp": lambda: z3.If(zx == zy, z3.BitVecVal(1, 1), z3.BitVecVal(0, 1)), "Equals": lambda: zx == zy}
        return table[nm]()
    if srt.is_bool_type():
        table = {"&": lambda: z3.And(zx, zy), "|": lambda: z3.Or(zx, zy), "^": lambda: z3.Xor(zx, zy), "~": lambda: z3.Not(zx),
                 "Implies": lambda: z3.Implies(zx, zy), "Iff": lambda: zx == zy, "And": lambda: z3.And(zx, zy), "Or": lambda: z3.Or(zx, zy)}
        return table[nm]()
    table = {"neg": lambda: -zx, "+": lambda: zx + zy, "-": lambda: zx - zy, "<": lambda: zx < zy, "<=": lambda: zx <= zy, ">": lambda: zx > zy,
             ">=": lambda: zx >= zy, "Equals": lambda: zx == zy, "NotEquals": lambda: zx != zy, "*c": lambda: zx * 3, "c-": lambda: 7 - zx,
             "Ite": lambda: z3.If(zx < zy, zx, zy)}
    return table[nm]()


def check_shapes(env, inst, timeout_ms=10000):
    nm, srt, x, y = inst
    name = "shape"
    m = env.formula_manager
    rp = {"kind": "shape", "op": nm, "x": bp.to_bp(x), "y": bp.to_bp(y) if y is not None else None}
    desc = "%s on %s%s" % (nm, x.serialize()[:80], (" and " + y.serialize()[:80]) if y is not None else "")
    try:
        f = shape_apply(nm, srt, x, y, m)
    except Exception as e:
        return {"name": name, "status": "viol", "signature": "operand-shape/%s/raises:%s" % (nm, type(e).__name__),
                "describe": "%s raises %r" % (desc, e), "replay": rp}
    tr = Z3Tr()
    try:
        zf = tr.tr(f)
        zx = tr.tr(x)
        zy = tr.tr(y) if y is not None else None
        ze = shape_expect(nm, srt, zx, zy)
    except Untranslatable as e:
        return {"name": name, "status": "inconc", "reason": str(e)}
    if not zf.sort().eq(ze.sort()):
        return {"name": name, "status": "viol", "signature": "operand-shape/%s/sort" % nm, "describe": "%s has sort %s" % (desc, zf.sort()),
                "replay": rp}
    if zf.eq(ze):
        return {"name": name, "status": "ok", "same": True, "nontrivial": True}
    st, mo, dt = tv.check_valid(zf == ze, timeout_ms, premises=tr.defined)
    if st == "unsat":
        return {"name": name, "status": "ok", "queried": True, "t": dt, "nontrivial": True,
                "sample": {"operator": nm, "operands": desc, "built": f.serialize()[:150], "verdict": "equal for all values"}}
    if st == "sat":
        return {"name": name, "status": "viol", "signature": "operand-shape/%s/value" % nm, "queried": True, "t": dt,
                "describe": "%s = %s does not denote the operator applied to the operands (model %s)" % (desc, f.serialize()[:200], mo),
                "replay": rp}
    return {"name": "shape:%s" % desc, "status": "inconc", "reason": "unknown %s" % mo, "queried": True, "t": dt}


tv.register("c06-shapes", gen_shapes, check_shapes)


def xh_literal_family(run):
    """symbolic Python literal operand (engine XH)"""
    from props import c02, c06_xh
    quick = run.tier == "quick"
    t = 40.0 if quick else 150.0
    jobs = []
    for w in ((2, 3) if quick else (1, 2, 3, 4)):
        for opn in c06_xh.BV_OPS:
            jobs.append(("props.c06_xh", "h_lit", t, {"sort": "V", "w": w, "op": opn, "name": "literal/V%d/%s" % (w, opn)}))
    for opn in c06_xh.INT_OPS:
        jobs.append(("props.c06_xh", "h_lit", t, {"sort": "I", "op": opn, "name": "literal/I/%s" % opn}))
        if not any(z in opn for z in ("Min", "Max", "GE", "GT")):
            jobs.append(("props.c06_xh", "h_lit", t, {"sort": "R", "op": opn, "qbox": 4, "name": "literal/R/%s" % opn}))

    def describe(p, r):
        return "%s on a %s symbol with value/literal %r does not denote what its name says (or a literal the sort cannot " \
               "represent is accepted)" % (p["op"], p["sort"] + str(p.get("w", "")), r["args"])
    c02.run_xh_family(run, "xh-literal", jobs, describe, lambda p, a: "literal/%s/%s" % (p["sort"], p["op"]), "xh")
    c02.twin_check(run, "xh-literal", jobs[::7])
    run.bounds["xh-literal"] = ("literal operand symbolic: BV widths 2,3 (quick) / 1-4, literal in [-2^w-1, 2^w+1], all values of x; "
                                "Int: literal and x unbounded; Real: literal unbounded int, x = n/d with |n|<=4, 1<=d<=4")


def replay(data):
    if data.get("kind") == "xh":
        from props.c02 import replay_call
        d = dict(data)
        d["mod"] = "props.c06_xh"
        return replay_call(d)
    env = tv.fresh_env()
    if data.get("kind") == "shape":
        env.enable_infix_notation = True
        x = bp.from_bp(data["x"], env)
        y = bp.from_bp(data["y"], env) if data["y"] is not None else None
        r = check_shapes(env, (data["op"], x.get_type(), x, y), timeout_ms=60000)
        return (True, r["describe"]) if r["status"] == "viol" else (False, "status=%s" % r["status"])
    for tier in ("quick", "thorough"):
        S, cs = cases(env, tier)
        for c in cs:
            if c.name == data["case"]:
                r = check(env, (S, c), timeout_ms=60000)
                if r["status"] == "viol":
                    return True, r["describe"]
                return False, "status=%s %s" % (r["status"], r.get("reason", ""))
    return False, "case not found"


def run(run, only=None):
    run.functions = [{"module": "pysmt/formula.py, pysmt/fnode.py, pysmt/shortcuts.py",
                      "what": "virtual operators of FormulaManager, FNode infix operators/methods, shortcuts.Abs",
                      "sha1": core.src_sha("pysmt/formula.py", "pysmt/fnode.py", "pysmt/shortcuts.py")}]
    run.bounds = {"widths": "1,2,3,4,8 (quick) + 5,16 (thorough)", "arities": "Min/Max 1-5, AtMostOne/ExactlyOne 0-5, "
                  "AllDifferent 0-4, n-ary BV 1-4, BVRepeat 1-4, integer shift amounts 0..w+2",
                  "values": "all values of the symbol arguments (z3 validity: exact for Int/Real/BV)"}
    run.outside = ["arities and widths above the listed ones", "derived-form literal operands other than the listed boundary values in the TV family "
                   "(the XH family makes the literal symbolic for the infix/method operators)"]
    run.assumptions = ["z3's SMod / AtMost / PbEq / RepeatBitVec / Rotate* are the named mathematical functions"]
    if not only or "c06-derived" in only:
        tv.run_family(run, "c06-derived", run.tier)
    if not only or "c06-shapes" in only:
        tv.run_family(run, "c06-shapes", run.tier)
        run.bounds["operand shapes"] = ("every infix operator / method applied to compound operands: one representative per (operator, "
                                        "argument shape) of the C01 level-1 grammar + n-ary sums/products with a constant in every position")
    if not only or "xh-literal" in only:
        run.functions.append({"module": "pysmt/fnode.py", "what": "FNode._apply_infix/_infix_prepare_arg and the infix/method operators "
                              "with a symbolic Python literal (CrossHair)", "sha1": core.src_sha("pysmt/fnode.py", "pysmt/formula.py")})
        xh_literal_family(run)
    run.extra["programs"] = run.evaluations
