"""C03 xh-index: indexed constructors with symbolic integer payloads (CrossHair).

PARAMS: op, w (width of the BV argument).  k0, k1 are the symbolic payload integers.
Post: the constructor raises iff the typing reference rejects; an accepted formula reports the reference type;
the value constructors BV / SBV accept exactly the representable values.
"""
from engine.xh.model import new_env
from engine.ref import reftype as RT

PARAMS = {}


def in_box(k0, k1):
    b = PARAMS.get("box", 12)
    return -b <= k0 <= b and -b <= k1 <= b


def body(k0, k1, twin):
    env = new_env()
    m = env.formula_manager
    w = PARAMS["w"]
    opn = PARAMS["op"]
    x = m.Symbol("x", env.type_manager.BVType(w))
    sort = ("V", w)
    if opn in ("BV", "SBV"):
        ok_ref = (0 <= k0 < 2 ** w) if opn == "BV" else (-(2 ** (w - 1)) <= k0 < 2 ** (w - 1))
        try:
            f = getattr(m, opn)(k0, w)
            raised = False
        except Exception:
            f = None
            raised = True
        if twin:
            return False
        if raised:
            return not ok_ref
        if not ok_ref:
            return False
        return f.bv_width() == w and f.constant_value() == (k0 % (2 ** w)) and f.get_type().width == w
    if opn in ("BVLShl", "BVLShr", "BVAShr"):
        ok_ref = 0 <= k0 < 2 ** w
        try:
            f = getattr(m, opn)(x, k0)
            raised = False
        except Exception:
            f = None
            raised = True
        if twin:
            return False
        if raised:
            return not ok_ref
        return ok_ref and f.get_type().width == w and f.arg(1).constant_value() == k0
    payload = (k0, k1) if opn == "BVExtract" else (k0,)
    exp = RT.reftype(opn, [sort], payload)
    try:
        f = getattr(m, opn)(x, *payload)
        raised = False
    except Exception:
        f = None
        raised = True
    if twin:
        return False
    if exp[0] == "either":
        return True
    if exp[0] == "reject":
        return raised
    if raised:
        return False
    ty = f.get_type()
    return ty.is_bv_type() and ty.width == exp[1][1] and f.bv_width() == exp[1][1]


def h_index(k0: int, k1: int) -> bool:
    """
    pre: in_box(k0, k1)
    post: _
    """
    return body(k0, k1, False)


def h_index_twin(k0: int, k1: int) -> bool:
    """
    pre: in_box(k0, k1)
    post: _
    """
    return body(k0, k1, True)


OPS = ["BVExtract", "BVRol", "BVRor", "BVZExt", "BVSExt", "BVRepeat", "BV", "SBV", "BVLShl", "BVLShr", "BVAShr"]


def run(run):
    from props.c02 import run_xh_family, twin_check
    widths = (1, 2, 4, 6) if run.tier == "quick" else (1, 2, 3, 4, 5, 6, 7, 8)
    t = 60.0 if run.tier == "quick" else 240.0
    jobs = []
    for o in OPS:
        for w in widths:
            box = 2 ** w + 3 if o in ("BV", "SBV", "BVLShl", "BVLShr", "BVAShr") else w + 2
            if o == "BVExtract" and w > 4 and run.tier == "quick":
                continue          # the result width is realised in _BVType's name: (2w+5)^2 realised pairs
            if o == "BVRepeat":
                box = 4
            jobs.append(("props.c03_xh", "h_index", t, {"op": o, "w": w, "box": box, "name": "index/%s/w%d" % (o, w)}))

    def describe(p, r):
        return "%s on a BV(%d) argument with payload %r: acceptance/type differs from the typing rules" % (p["op"], p["w"], r["args"])

    def sig(p, args):
        neg = args and args[0] is not None and args[0] < 0
        return "typing/index/%s/%s" % (p["op"], "negative" if neg else "other")
    run_xh_family(run, "xh-index", jobs, describe, sig, "xh")
    twin_check(run, "xh-index", jobs[::6])
