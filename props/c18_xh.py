"""C18 XH harnesses: the generic optimisation loops over a brute-force oracle.

h_opt  : one (goal kind, strategy, mixin, mode) combination (PARAMS) on the constraint system
           lo <= x <= hi  and  x != e  (and  ylo <= y)        over BV(w) or range-bounded Int variables
         with SYMBOLIC constants lo, hi, e, ylo, soft-clause weights w1, w2 and a symbolic choice of which model the
         oracle returns (first / last satisfying assignment).  Post: result None iff unsatisfiable; the returned
         model satisfies the assertions; the cost is the true optimum computed by reference enumeration (lexicographic
         optimum / boxed optima / exact Pareto front); the assertion stack (list and depth) is as found.
h_ival : the search-interval kernel: for arbitrary symbolic bounds the pivot lies strictly inside the interval on
         the open side, and sat/unsat updates keep the optimum inside (one inductive iteration with a truthful oracle).
"""
from crosshair.tracers import NoTracing

from engine.xh.model import new_env
from engine.ref import refeval

PARAMS = {}


def decode(v, lo, hi):
    for j in range(lo, hi + 1):
        if v == j:
            return j
    return None


def build(env, kind, w):
    """variables and objective(s) for a goal kind"""
    from pysmt import typing as T
    from pysmt.optimization.goal import MinimizationGoal, MaximizationGoal, MinMaxGoal, MaxMinGoal, MaxSMTGoal
    m = env.formula_manager
    if kind.startswith("int"):
        x, y = m.Symbol("x", T.INT), m.Symbol("y", T.INT)
        le = m.LE
        cst = m.Int
        signed = False
        plus, neg = m.Plus, (lambda t: m.Times(m.Int(-1), t))
    else:
        bt = env.type_manager.BVType(w)
        x, y = m.Symbol("x", bt), m.Symbol("y", bt)
        signed = "signed" in kind and "unsigned" not in kind
        le = m.BVSLE if signed else m.BVULE
        cst = (lambda v: m.SBV(v, w)) if signed else (lambda v: m.BV(v, w))
        plus, neg = m.BVAdd, m.BVNot
    return m, x, y, le, cst, signed, plus, neg


def goals_for(env, kind, m, x, y, signed, plus, neg, w1, w2):
    """-> goals; each carries the check's OWN specification (direction and objective terms), so that the reference optimum does not
    depend on what the goal object reports about itself (term(), signed, is_minimization_goal())"""
    from pysmt.optimization.goal import MinimizationGoal, MaximizationGoal, MinMaxGoal, MaxMinGoal, MaxSMTGoal
    base = kind.split("/")[1]

    def spec(g, direction, terms, combine=None):
        g.verif_dir = direction              # "min" / "max"
        g.verif_terms = terms                # objective = combine(values of terms) (combine None: the single term)
        g.verif_combine = combine
        return g
    if base == "min-x":
        return [spec(MinimizationGoal(x, signed), "min", [x])]
    if base == "max-x":
        return [spec(MaximizationGoal(x, signed), "max", [x])]
    if base == "min-negx":
        t = neg(x)
        return [spec(MinimizationGoal(t, signed), "min", [t])]
    if base == "max-negx":
        t = neg(x)
        return [spec(MaximizationGoal(t, signed), "max", [t])]
    if base == "min-x+y":
        t = plus(x, y)
        return [spec(MinimizationGoal(t, signed), "min", [t])]
    if base == "max-x+y":
        t = plus(x, y)
        return [spec(MaximizationGoal(t, signed), "max", [t])]
    if base == "minmax":
        return [spec(MinMaxGoal([x, y], signed), "min", [x, y], max)]
    if base == "maxmin":
        return [spec(MaxMinGoal([x, y], signed), "max", [x, y], min)]
    if base in ("maxsmt", "maxsmt-inc"):
        g = MaxSMTGoal(real_weights=False)
        one = m.Int(1)
        if x.symbol_type().is_int_type():
            c1, c2, c3 = m.LE(x, m.Int(0)), m.LE(m.Int(1), y), m.Equals(x, y)
        else:
            wd = x.symbol_type().width
            c1, c2, c3 = m.BVULE(x, m.BV(1, wd)), m.BVULE(m.BV(1, wd), y), m.Equals(x, y)
        g.add_soft_clause(c1, m.Int(w1))
        g.add_soft_clause(c2, m.Int(w2))
        g.verif_soft = [(c1, w1), (c2, w2)]          # the check's own record of the soft clauses (independent of g.term())
        g.verif_later = []
        g.verif_dir = "max"
        if base == "maxsmt":
            g.add_soft_clause(c3, m.Int(1))
            g.verif_soft.append((c3, 1))
        else:
            # the same goal object is optimised, extended by one more soft clause, and optimised again
            g.verif_later = [(c3, 2)]
        return [g]
    if base == "two":        # two objectives for boxed / lexicographic / pareto
        return [spec(MinimizationGoal(x, signed), "min", [x]), spec(MaximizationGoal(y, signed), "max", [y])]
    if base == "two-same":
        return [spec(MaximizationGoal(x, signed), "max", [x]), spec(MaximizationGoal(y, signed), "max", [y])]
    if base == "two-sum":
        t = plus(x, y)
        return [spec(MinimizationGoal(t, signed), "min", [t]), spec(MinimizationGoal(x, signed), "min", [x])]
    raise ValueError(kind)


def value_of(term, interp, signed, wbits):
    v = refeval.evaluate(term, interp)
    if signed and wbits:
        return refeval.to_signed(v, wbits)
    return v


def domain_of(sym, int_dom):
    ty = sym.symbol_type()
    if ty.is_bv_type():
        return list(range(2 ** ty.width))
    return list(range(int_dom[0], int_dom[1] + 1))


def opt_body(lo, hi, e, ylo, w1, w2, last, twin):
    kind = PARAMS["kind"]            # "<sort>/<goal>"  sort in {int, bvu, bvsigned}
    w = PARAMS.get("w", 2)
    int_dom = (-2, 2)
    isint = kind.startswith("int")
    vmin, vmax = (int_dom if isint else ((-(2 ** (w - 1)), 2 ** (w - 1) - 1) if "signed" in kind else (0, 2 ** w - 1)))
    base = kind.split("/")[1]
    uses_y = base in ("min-x+y", "max-x+y", "minmax", "maxmin", "maxsmt", "maxsmt-inc", "two", "two-same", "two-sum")
    clo, chi = decode(lo, vmin, vmax), decode(hi, vmin, vmax)
    ce = decode(e, vmin, vmax) if not base.startswith("maxsmt") else vmax
    # only the constants the instance depends on are symbolic; the others are fixed (no forking on them)
    cy = decode(ylo, vmin, vmax) if uses_y else vmin
    c1, c2 = (decode(w1, 1, 3), decode(w2, 1, 3)) if base.startswith("maxsmt") else (1, 1)
    if None in (clo, chi, ce, cy, c1, c2):
        return True
    pick_last = True if last else False
    with NoTracing():
        import itertools
        from engine.stubsolver import make_stub_class
        from pysmt.optimization.optimizer import SUAOptimizerMixin, IncrementalOptimizerMixin
        env = new_env(dict_model=False)
        m, x, y, le, cst, signed, plus, neg = build(env, kind, w)
        Stub = make_stub_class(int_domain=int_dom)
        Mixin = SUAOptimizerMixin if PARAMS["mixin"] == "sua" else IncrementalOptimizerMixin

        class Opt(Mixin, Stub):
            pass
        solver = Opt(env)
        solver.prefer = "last" if pick_last else "first"
        assertions = [le(cst(clo), x), le(x, cst(chi)), m.Not(m.Equals(x, cst(ce))), le(cst(cy), y)]
        # a user-level frame around: the stack must come back exactly
        solver.add_assertion(assertions[0])
        solver.push()
        for a in assertions[1:]:
            solver.add_assertion(a)
        before = (list(solver.assertions), len(solver._backtrack_points))
        goals = goals_for(env, kind, m, x, y, signed, plus, neg, c1, c2)
        wbits = 0 if isint else w
        # reference enumeration
        doms = [domain_of(x, int_dom), domain_of(y, int_dom)]
        feas = []
        for vx, vy in itertools.product(*doms):
            it = {x: vx, y: vy}
            if all(refeval.evaluate(a, it) for a in assertions):
                feas.append(it)

        def gval(g, it):
            if hasattr(g, "verif_soft"):
                return sum(wt for cl, wt in g.verif_soft if refeval.evaluate(cl, it))
            vals = [value_of(t, it, signed, wbits) for t in g.verif_terms]
            return vals[0] if g.verif_combine is None else g.verif_combine(vals)

        def better(g, a, b):        # a strictly better than b, by the check's own record of the direction
            if g.verif_dir == "min":
                return a < b
            return a > b
        mode = PARAMS["mode"]
        strategy = PARAMS["strategy"]
        ok = True

        def model_ok(model):
            it = {x: model.get_py_value(x), y: model.get_py_value(y)}
            return all(refeval.evaluate(a, it) for a in assertions), it

        def as_num(node, g):
            if node.is_bv_constant():
                return node.bv_signed_value() if signed else node.bv_unsigned_value()
            return node.constant_value()
        if mode == "single":
            g = goals[0]
            stages = [None] + list(getattr(g, "verif_later", []))
            for extra in stages:
                if extra is not None:
                    g.add_soft_clause(extra[0], m.Int(extra[1]))
                    g.verif_soft.append(extra)
                res = solver.optimize(g, strategy=strategy)
                if not feas:
                    ok = ok and res is None
                elif res is None:
                    ok = False
                else:
                    model, cost = res
                    sat, it = model_ok(model)
                    best = None
                    for f in feas:
                        v = gval(g, f)
                        if best is None or better(g, v, best):
                            best = v
                    ok = ok and sat and as_num(cost, g) == best and gval(g, it) == best
        elif mode == "boxed":
            res = solver.boxed_optimize(goals, strategy=strategy)
            if not feas:
                ok = res is None
            elif res is None:
                ok = False
            else:
                for g in goals:
                    model, cost = res[g]
                    sat, it = model_ok(model)
                    best = None
                    for f in feas:
                        v = gval(g, f)
                        if best is None or better(g, v, best):
                            best = v
                    if not (sat and as_num(cost, g) == best):
                        ok = False
        elif mode == "lex":
            res = solver.lexicographic_optimize(goals, strategy=strategy)
            if not feas:
                ok = res is None
            elif res is None:
                ok = False
            else:
                model, costs = res
                sat, it = model_ok(model)
                cur = feas
                exp = []
                for g in goals:
                    best = None
                    for f in cur:
                        v = gval(g, f)
                        if best is None or better(g, v, best):
                            best = v
                    exp.append(best)
                    cur = [f for f in cur if gval(g, f) == best]
                ok = sat and [as_num(c, g) for c, g in zip(costs, goals)] == exp and [gval(g, it) for g in goals] == exp
        elif mode == "pareto":
            got = []
            for model, costs in solver.pareto_optimize(goals):
                sat, it = model_ok(model)
                if not sat:
                    ok = False
                got.append(tuple(as_num(c, g) for c, g in zip(costs, goals)))
            pts = set(tuple(gval(g, f) for g in goals) for f in feas)

            def dominates(p, q):
                return all((not better(g, b, a)) for g, a, b in zip(goals, p, q)) and any(better(g, a, b) for g, a, b in zip(goals, p, q))
            front = set(p for p in pts if not any(dominates(q, p) for q in pts))
            if set(got) != front or len(got) != len(set(got)):
                ok = False
        after = (list(solver.assertions), len(solver._backtrack_points))
        if after != before:
            ok = False
    if twin:
        return False
    return ok


def h_opt(lo: int, hi: int, e: int, ylo: int, w1: int, w2: int, last: bool) -> bool:
    """
    post: _
    """
    return opt_body(lo, hi, e, ylo, w1, w2, last, False)


def h_opt_twin(lo: int, hi: int, e: int, ylo: int, w1: int, w2: int, last: bool) -> bool:
    """
    post: _
    """
    return opt_body(lo, hi, e, ylo, w1, w2, last, True)


# ---- interval kernel with fully symbolic bounds (traced) -------------------------------------------------------------------
def ival_pre(lower, upper, has_l, has_u, opt):
    if has_l and has_u and not (lower < upper):
        return False
    if not (-40 <= lower <= 40 and -40 <= upper <= 40 and -40 <= opt <= 40):
        return False
    # the optimum lies in the interval: closed on the side of the goal's progress, open on the other
    mini = PARAMS["goal"] == "min"
    if has_l and (opt < lower if mini else opt <= lower):
        return False
    if has_u and (opt >= upper if mini else opt > upper):
        return False
    return True


def ival_body(lower, upper, has_l, has_u, opt, sat_value, twin):
    """OptSearchInterval over an Int objective: binary-search pivot and the two updates"""
    from pysmt.optimization.optimizer import OptSearchInterval
    from pysmt.optimization.goal import MinimizationGoal, MaximizationGoal
    from pysmt import typing as T
    env = new_env(dict_model=False)
    m = env.formula_manager
    x = m.Symbol("x", T.INT)
    mini = PARAMS["goal"] == "min"
    g = MinimizationGoal(x) if mini else MaximizationGoal(x)
    with NoTracing():
        iv = OptSearchInterval(g, env, [])
    iv._lower = lower if has_l else None
    iv._upper = upper if has_u else None
    p = iv._compute_pivot()
    if twin:
        return False
    ok = True
    # the cut "x < p" (min) / "x > p" (max) must exclude something and keep something when both bounds are known
    if has_l and has_u:
        if mini:
            ok = ok and (lower < p <= upper)          # cut x < p: keeps [lower, p), excludes [p, upper)
        else:
            ok = ok and (lower <= p < upper)
    # unsat answer to the cut: optimum is not on the cut side
    iv._pivot = p
    cut_holds_for_opt = (opt < p) if mini else (opt > p)
    if not cut_holds_for_opt:
        iv.search_is_unsat()
        nl, nu = iv._lower, iv._upper
        if mini:
            ok = ok and nl == p and (nl <= opt)
        else:
            ok = ok and nu == p and (opt <= nu)
        # progress: the interval shrank
        if has_l and has_u:
            ok = ok and ((nu - nl) < (upper - lower))
    return ok


def h_ival(lower: int, upper: int, has_l: bool, has_u: bool, opt: int, sat_value: int) -> bool:
    """
    pre: ival_pre(lower, upper, has_l, has_u, opt)
    post: _
    """
    return ival_body(lower, upper, has_l, has_u, opt, sat_value, False)


def h_ival_twin(lower: int, upper: int, has_l: bool, has_u: bool, opt: int, sat_value: int) -> bool:
    """
    pre: ival_pre(lower, upper, has_l, has_u, opt)
    post: _
    """
    return ival_body(lower, upper, has_l, has_u, opt, sat_value, True)
