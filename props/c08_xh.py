"""C08 xh-lex: the real Tokenizer.create_generator on a symbolic input string vs a reference SMT-LIB lexer.

Input: CrossHair symbolic str, length <= PARAMS['len'], characters from one representative per lexical class.
Post: whenever the reference lexer accepts the text, the real tokenizer yields the same token stream, where a
token is compared by CLASS (parenthesis / string literal / other) and TEXT - so a quoted symbol whose content
is a parenthesis or a string literal must not come out as a parenthesis / string literal token.
When the reference lexer rejects (unterminated |...| or "..."), the real tokenizer must raise or stop early.
"""
from crosshair.tracers import NoTracing

PARAMS = {}

ALPHABET = "()|\"; \n\r\ta0:\\"


class LexError(Exception):
    pass


def ref_lex(s):
    """-> list of (class, text); class in {'(', ')', 'str', 'sym'} ; quoted symbols are class 'sym'."""
    out = []
    i = 0
    n = len(s)
    while i < n:
        c = s[i]
        if c == " " or c == "\n" or c == "\t" or c == "\r":
            i += 1
        elif c == "(" or c == ")":
            out.append((c, c))
            i += 1
        elif c == ";":
            while i < n and s[i] != "\n":
                i += 1
        elif c == "|":
            j = i + 1
            while j < n and s[j] != "|":
                if s[j] == "\\":
                    raise LexError("backslash in quoted symbol")
                j += 1
            if j >= n:
                raise LexError("unterminated quoted symbol")
            out.append(("sym", s[i + 1:j]))
            i = j + 1
        elif c == "\"":
            j = i + 1
            while True:
                if j >= n:
                    raise LexError("unterminated string literal")
                if s[j] == "\"":
                    if j + 1 < n and s[j + 1] == "\"":
                        j += 2
                        continue
                    break
                j += 1
            out.append(("str", s[i:j + 1]))
            i = j + 1
        else:
            j = i
            while j < n and s[j] not in "() \n\t\r;|\"":
                j += 1
            out.append(("sym", s[i:j]))
            i = j
    return out


def classify(tok):
    if tok == "(" or tok == ")":
        return (tok, tok)
    if len(tok) > 0 and tok[0] == "\"":
        return ("str", tok)
    return ("sym", tok)


def in_alphabet(s):
    if len(s) > PARAMS.get("len", 3):
        return False
    for c in s:
        if c not in ALPHABET:
            return False
    if PARAMS.get("exclude_known"):
        # leave out the recorded finding (a quoted symbol whose content reads as another token class) so that
        # every OTHER discrepancy is still searched for exhaustively
        try:
            for k, t in ref_lex(s + "\n"):
                if k == "sym" and (t == "(" or t == ")" or t[:1] == "\"" ) and ("|" + t + "|") in s:
                    return False
        except LexError:
            pass
    return True


def real_tokens(s):
    from pysmt.smtlib.parser.parser import Tokenizer
    with NoTracing():
        tk = Tokenizer.__new__(Tokenizer)
        tk._Tokenizer__has_pos_info = False
        tk._Tokenizer__col_cnt = 0
        tk._Tokenizer__row_cnt = 0
    return list(tk.create_generator(iter(s)))


def lex_body(s, twin):
    # text inside a script is always followed by something (at least the closing parenthesis / newline): the
    # tokenizer's behaviour on an atom cut off by end-of-file is not part of the claim
    s = s + "\n"
    try:
        exp = ref_lex(s)
        ref_ok = True
    except LexError:
        exp = None
        ref_ok = False
    try:
        got = real_tokens(s)
        raised = False
    except Exception:
        got = None
        raised = True
    if twin:
        return False
    if not ref_ok:
        return True          # malformed at the lexical level: raising or stopping early are both acceptable here
    if raised:
        return False         # well-formed text must be tokenized
    return [classify(t) for t in got] == exp


def h_lex(s: str) -> bool:
    """
    pre: in_alphabet(s)
    post: _
    """
    return lex_body(s, False)


def h_lex_twin(s: str) -> bool:
    """
    pre: in_alphabet(s)
    post: _
    """
    return lex_body(s, True)


def signature(p, args):
    s = (args[0] if args else "") + "\n"
    try:
        exp = ref_lex(s)
    except LexError:
        return "lex/other"
    if "\r" in s and not any(("|" in t or "\"" in t) for _, t in exp):
        return "lex/carriage-return-not-whitespace"
    if any(k == "sym" and (t in ("(", ")") or t.startswith("\"")) for k, t in exp):
        return "lex/quoted-symbol-loses-quotedness"
    if any(k == "sym" and t == "" for k, t in exp):
        return "lex/empty-quoted-symbol"
    return "lex/other"


def run(run):
    from props.c02 import run_xh_family, twin_check
    n = 3 if run.tier == "quick" else 4
    t = 120.0 if run.tier == "quick" else 600.0
    jobs = [("props.c08_xh", "h_lex", t, {"len": n, "exclude_known": True, "name": "lex/len<=%d/without-ambiguous-quoted" % n}),
            ("props.c08_xh", "h_lex", t, {"len": n, "name": "lex/len<=%d" % n})]

    def describe(p, r):
        return "Tokenizer on %r differs from the reference lexer" % (r["args"],)
    run_xh_family(run, "xh-lex", jobs, describe, signature, "xh")
    twin_check(run, "xh-lex", jobs)
    run.bounds["xh-lex"] = "input strings of length <= %d over the alphabet %r (one representative per lexical class)" % (n, ALPHABET)
