"""C17 - text-interface solvers: legal command stream, replies in sync, faithful model (engine XH over a strict fake)."""
from engine import core

LEVEL = "model_checking"


def replay(data):
    from props.c02 import replay_call
    d = dict(data)
    d["mod"] = "props.c17_xh"
    return replay_call(d)


def run(run, only=None):
    from props import c17_xh
    from props.c02 import run_xh_family, twin_check
    run.functions = [{"module": "pysmt/smtlib/solver.py, pysmt/solvers/solver.py",
                      "what": "SmtLibSolver.add_assertion/push/pop/solve/get_value/get_model/reset_assertions, reply reading, "
                              "Solver.is_sat/is_valid/is_unsat", "sha1": core.src_sha("pysmt/smtlib/solver.py", "pysmt/solvers/solver.py",
                                                                                      "pysmt/smtlib/script.py", "pysmt/smtlib/parser/parser.py")}]
    quick = run.tier == "quick"
    alphabet = c17_xh.REDUCED if quick else c17_xh.CMDS
    n = 3 if quick else 4
    t = 300.0 if quick else 1800.0
    run.bounds = {"histories": "all legal call sequences of length <= %d over %s" % (n + 1, alphabet),
                  "formulas": "pool over Bool symbols (one needing |quotes|) and BV(2) symbols: truth is finite-domain",
                  "external solver": "strict in-memory reference (engine/fakesmt.py): scoped declarations, z3 for check-sat/get-value"}
    run.outside = ["real pipes / buffering / process death (the stand-in is synchronous)", "solver-specific reply syntaxes",
                   "custom sorts"]
    firsts = [c for c in alphabet if c not in ("end", "pop1", "pop2")]
    if quick:
        jobs = [("props.c17_xh", "h_hist", t, {"first": f, "len": n, "reduced": True, "name": "hist/%s+%d" % (f, n)}) for f in firsts]
    else:
        # thorough: the first TWO calls are fixed per condition (|alphabet|^3 paths each), same total length 5
        jobs = [("props.c17_xh", "h_hist", 900.0, {"first": f, "second": g, "len": 3, "reduced": False, "name": "hist/%s,%s+3" % (f, g)})
                for f in firsts for g in alphabet if g != "end" and not (g == "pop2" and f != "push2") and not (g == "pop1" and f not in ("push1", "push2"))]

    def seq_of(p, args):
        al = c17_xh.REDUCED if p.get("reduced") else c17_xh.CMDS
        return [p["first"]] + ([p["second"]] if "second" in p else []) + [al[c] if 0 <= c < len(al) else "?" for c in (args or [])[:p["len"]]]

    def describe(p, r):
        return "call history %s: illegal stream / desynchronised replies / wrong verdict or model" % seq_of(p, r["args"])

    def sig(p, a):
        return "smtlib-solver/" + ",".join(seq_of(p, a))
    run_xh_family(run, "xh-history", jobs, describe, sig, "xh")
    twin_check(run, "xh-history", jobs[::(4 if quick else 23)])
    run.extra["states"] = len(jobs) * (len(alphabet) ** n)
