"""C09 - printing then parsing gives the formula back (SMT-LIB tree/DAG, scripts, human-readable).

Identity clauses are decided by running the real printers and parsers (hash-consing makes 'same formula'
an `is` test); the equivalence clauses (constant arrays, HR parser regrouping) are decided by z3 on the
independent translation.  Instances: the C07 export grammar.
"""
import io
import warnings

import z3

from pysmt import operators as op

from engine import blueprint as bp
from engine import core
from engine.ref import refstruct as rs
from engine.ref.tr_z3 import Z3Tr, Untranslatable
from engine.tv import driver as tv
from props import c07

LEVEL = "translation_validation"


def has_array_value(f):
    return any(t.node_type() == op.ARRAY_VALUE for t in rs.subterms(f))


_SHARED_PARSER = {}


def shared_parser(env):
    """one long-lived parser per environment: it reads every text of the family after a fresh parser did"""
    from pysmt.smtlib.parser import SmtLibParser
    k = id(env)
    if k not in _SHARED_PARSER or _SHARED_PARSER[k][0] is not env:
        _SHARED_PARSER[k] = (env, SmtLibParser(env))
    return _SHARED_PARSER[k][1]


_LAST_TEXT = {}


def roundtrip_smtlib(env, f, daggify):
    from pysmt.smtlib.parser import SmtLibParser
    text = c07.script_text(f, daggify)
    try:
        return _roundtrip(env, f, daggify, text)
    except UsedParserDiffers as e:
        e.prev = _LAST_TEXT.get(id(env))
        raise


def _roundtrip(env, f, daggify, text):
    from pysmt.smtlib.parser import SmtLibParser
    script = SmtLibParser(env).get_script(io.StringIO(text))
    g = script.get_last_formula()
    # the bare term (to_smtlib) wrapped in a script WITHOUT set-logic: the other common way of writing a formula out.  The shared
    # parser reads it FIRST, i.e. right after the (different) script of the previous instance.
    lines = [ln for ln in text.splitlines() if not ln.startswith("(set-logic")]
    bare = "\n".join(lines)
    if bare != text:
        try:
            g3 = SmtLibParser(env).get_script(io.StringIO(bare)).get_last_formula()
        except Exception as e:
            g3 = e
        try:
            g4 = shared_parser(env).get_script(io.StringIO(bare)).get_last_formula()
        except Exception as e:
            g4 = e
        if (g3 is not g4) and not (isinstance(g3, Exception) and isinstance(g4, Exception)):
            raise UsedParserDiffers("without the set-logic line a fresh parser gives %s, a parser that has read other scripts before %s" %
                                    (g3 if isinstance(g3, Exception) else g3.serialize()[:150],
                                     g4 if isinstance(g4, Exception) else g4.serialize()[:150]))
    try:
        g2 = shared_parser(env).get_script(io.StringIO(text)).get_last_formula()
        _LAST_TEXT[id(env)] = text          # the last script (with its set-logic) the shared parser has actually read
    except Exception as e:
        raise UsedParserDiffers("a parser that has read other scripts before raises %r on text a fresh parser reads" % (e,))
    if g2 is not g:
        raise UsedParserDiffers("a parser that has read other scripts before reads %s, a fresh parser %s" % (g2.serialize()[:150], g.serialize()[:150]))
    return text, g


class UsedParserDiffers(Exception):
    pass


def check_smt(env, f, timeout_ms=5000):
    name = "smtlib-roundtrip"
    res = {"name": name, "status": "ok", "queries": 0, "t": 0.0, "nontrivial": True}
    for dag in (False, True):
        rp = {"k": "smt", "formula": bp.to_bp(f), "dag": dag}
        try:
            with warnings.catch_warnings():
                warnings.simplefilter("ignore")
                text, g = roundtrip_smtlib(env, f, dag)
        except Exception as e:
            if type(e).__name__ == "NoLogicAvailableError":
                return {"name": name, "status": "ok", "skipped": True}    # C07's finding, not a round-trip issue
            if isinstance(e, UsedParserDiffers):
                rp = dict(rp, prev_text=getattr(e, "prev", None))
                return {"name": name, "status": "viol", "signature": "roundtrip/smt/used-parser", "replay": rp,
                        "describe": "print(%s): %s" % (f.serialize()[:200], e)}
            import re
            if any(re.match(r"^[A-Za-z][A-Za-z0-9_]*$", str(ty)) is None for ty in c07.custom_sorts(f)):
                return {"name": name, "status": "viol", "signature": "roundtrip/smt/custom-sort-name-needs-quoting",
                        "describe": "parse(print(%s)) raises %r" % (f.serialize()[:200], e), "replay": rp}
            return {"name": name, "status": "viol", "signature": "roundtrip/smt/raises:%s/%s" % (type(e).__name__, c07.classify(f)),
                    "describe": "parse(print(%s), daggify=%s) raises %r" % (f.serialize()[:200], dag, e), "replay": rp}
        if g is f:
            continue
        if has_array_value(f):
            v = tv.check_equiv(f, g, timeout_ms)
            res["queries"] += 1
            res["t"] += v.t
            if v.status in ("unsat", "same"):
                continue
            if v.status == "sat":
                return {"name": name, "status": "viol", "signature": "roundtrip/smt/array-meaning", "describe":
                        "parse(print(%s)) = %s differs" % (f.serialize()[:200], g.serialize()[:200]), "replay": rp}
            return {"name": name + ":" + f.serialize()[:80], "status": "inconc", "reason": v.status + v.reason}
        return {"name": name, "status": "viol", "signature": "roundtrip/smt/identity/%s" % c07.classify(f),
                "describe": "parse(print(f), daggify=%s) is not f: f=%s got %s (text %r)" %
                            (dag, f.serialize()[:200], g.serialize()[:200], text[:300]), "replay": rp}
    res["sample"] = {"formula": f.serialize()[:160], "verdict": "parse(print(f)) is f for tree and DAG printers"}
    return res


# ---- scripts ---------------------------------------------------------------------------------------------------------
SCRIPTS = [
    """(set-logic QF_LIA)(declare-fun x () Int)(declare-fun y () Int)(define-fun f ((a Int) (b Int)) Int (+ a b 1))
       (assert (< (f x y) 3))(push 1)(assert (= x y))(check-sat)(get-value (x (f x 2)))(pop 1)(check-sat)(exit)""",
    """(set-logic QF_BV)(declare-const a (_ BitVec 4))(define-fun g ((a (_ BitVec 4))) Bool (bvult a #b0011))
       (assert (g a))(assert (not (g (bvadd a #x1))))(check-sat)(get-model)""",
    """(set-option :produce-models true)(set-info :status sat)(set-logic QF_UFLRA)(declare-sort U 0)
       (declare-fun u () U)(declare-fun h (U Real) Real)(declare-fun r () Real)
       (assert (! (> (h u r) 0.5) :named n1))(assert (=> (< r 0.0) (= (h u r) (- 1.0))))(check-sat)(get-unsat-core)""",
    """(set-logic LIA)(declare-fun x () Int)(assert (forall ((y Int)) (exists ((z Int)) (and (< y z) (< z (+ x y 2))))))
       (check-sat)""",
    """(set-logic QF_AUFLIA)(declare-fun m () (Array Int Int))(declare-fun i () Int)
       (define-fun sel ((k Int)) Int (select m k))(assert (= (sel i) (sel (+ i 1))))
       (assert (= m (store m i 0)))(check-sat)(reset-assertions)(assert (> (sel 0) 1))(check-sat)""",
    """(set-logic QF_LIA)(declare-fun x () Int)(declare-fun y () Int)(assert (> x 0))(assert-soft (< x y) :weight 2 :id g1)
       (assert-soft (> y 3) :id g1)(minimize (+ x y))(maximize x)(check-sat)(get-objectives)""",
    """(set-logic QF_BV)(declare-fun a () (_ BitVec 8))(declare-fun b () (_ BitVec 8))(assert (bvule a b))
       (minimize a :signed)(maximize (bvadd a b))(check-sat)""",
    """(set-logic QF_LRA)(declare-fun p () Bool)(declare-fun r () Real)(define-fun k () Real (/ 1 3))
       (assert (ite p (< r k) (> r (- k))))(check-sat)(get-value (r))""",
    """(set-logic QF_SLIA)(declare-fun s () String)(declare-fun n () Int)
       (assert (= (str.len s) n))(assert (str.contains s "a""b"))(assert (= (str.at s 0) "x"))(check-sat)""",
    """(set-logic QF_LIA)(declare-fun x () Int)(push 2)(assert (< x 1))(pop 1)(push 1)(assert (> x 5))(pop 2)
       (assert (= x 7))(check-sat)""",
    """(set-logic QF_LIA)(declare-fun p () Bool)(check-sat-assuming (p))(echo "done")""",
]


def gen_scripts(env, tier):
    return list(range(len(SCRIPTS)))


def check_script(env, idx, timeout_ms=5000):
    from pysmt.smtlib.parser import SmtLibParser
    name = "script-roundtrip"
    text = SCRIPTS[idx]
    rp = {"k": "script", "idx": idx}
    try:
        s1 = SmtLibParser(env).get_script(io.StringIO(text))
    except Exception as e:
        # the property is about parsed scripts: text the parser rejects is not an instance (C08 covers it)
        return {"name": name, "status": "ok", "skipped": True}
    try:
        for c in s1.commands:
            try:
                c.serialize_to_string()
            except NotImplementedError:
                # contains a command pySMT documents as not serialisable: outside "serialisable commands"
                return {"name": name, "status": "ok", "skipped": True}
        buf = io.StringIO()
        s1.serialize(buf, daggify=False)
        s2 = SmtLibParser(env).get_script(io.StringIO(buf.getvalue()))
        buf2 = io.StringIO()
        s1.serialize(buf2, daggify=True)
        s3 = SmtLibParser(env).get_script(io.StringIO(buf2.getvalue()))
    except Exception as e:
        return {"name": name, "status": "viol", "signature": "roundtrip/script/raises:%s/#%d" % (type(e).__name__, idx),
                "describe": "script #%d: %r" % (idx, e), "replay": rp}
    for other, how in ((s2, "tree"), (s3, "dag")):
        c1, c2 = list(s1.commands), list(other.commands)
        if [c.name for c in c1] != [c.name for c in c2]:
            return {"name": name, "status": "viol", "signature": "roundtrip/script/commands/#%d" % idx,
                    "describe": "script #%d (%s): command names differ %s vs %s" % (idx, how, [c.name for c in c1], [c.name for c in c2]),
                    "replay": rp}
        for a, b in zip(c1, c2):
            if not same_command(env, a, b):
                return {"name": name, "status": "viol", "signature": "roundtrip/script/args/%s/#%d" % (a.name, idx),
                        "describe": "script #%d (%s): command %s re-parsed as %s" % (idx, how, a, b), "replay": rp}
    return {"name": name, "status": "ok", "nontrivial": True,
            "sample": {"script": idx, "commands": [c.name for c in s1.commands], "verdict": "re-parsed command list equal (tree and DAG)"}}


def same_command(env, a, b):
    """equal command arguments up to the names of definition parameters (structural key modulo a positional
    renaming of define-fun parameters)"""
    from pysmt.fnode import FNode
    if a.name != b.name or len(a.args) != len(b.args):
        return False
    ren_a, ren_b = {}, {}
    if a.name == "define-fun":
        pa, pb = a.args[1], b.args[1]
        if len(pa) != len(pb):
            return False
        for k, (x, y) in enumerate(zip(pa, pb)):
            if x.symbol_type() != y.symbol_type():
                return False
            ren_a[x.symbol_name()] = "%%param%d" % k
            ren_b[y.symbol_name()] = "%%param%d" % k

    def key(v, ren):
        if isinstance(v, FNode):
            return rs.ackey(v, {}, ren)
        if isinstance(v, (list, tuple)):
            return tuple(key(x, ren) for x in v)
        if isinstance(v, dict):
            return tuple(sorted((str(k), str(x)) for k, x in v.items()))
        return str(v)
    return key(list(a.args), ren_a) == key(list(b.args), ren_b)


# ---- human-readable --------------------------------------------------------------------------------------------------------
def hr_fragment(f):
    """the HR parser's fragment: no custom sorts / weird names (symbols are looked up by plain identifiers)"""
    import re
    for s in rs.all_symbols(f):
        if re.match(r"^[A-Za-z_][A-Za-z0-9_]*$", s.symbol_name()) is None:
            return False
        if s.symbol_name() in ("True", "False", "Int", "Real", "Bool", "ToReal", "Array", "forall", "exists", "bv2nat"):
            return False
    for t in rs.subterms(f):
        if t.node_type() in (op.ALGEBRAIC_CONSTANT,):
            return False
        if t.node_type() == op.STR_CONSTANT and any(ord(c) > 126 or ord(c) < 32 for c in t.constant_value()):
            return False
    return True


def check_hr(env, f, timeout_ms=5000):
    from pysmt.parsing import HRParser
    name = "hr-roundtrip"
    if not hr_fragment(f):
        return {"name": name, "status": "ok", "skipped": True}
    rp = {"k": "hr", "formula": bp.to_bp(f)}
    text = f.serialize()
    try:
        g = HRParser(env).parse(text)
    except Exception as e:
        return {"name": name, "status": "viol", "signature": "roundtrip/hr/raises:%s/%s" % (type(e).__name__, hr_class(f)),
                "describe": "HRParser.parse(%r) raises %r" % (text[:300], e), "replay": rp}
    # one long-lived HR parser per environment must read the same thing (it has read the previous instances, some of them failing)
    k = ("hr", id(env))
    if k not in _SHARED_PARSER or _SHARED_PARSER[k][0] is not env:
        _SHARED_PARSER[k] = (env, HRParser(env))
    try:
        g2 = _SHARED_PARSER[k][1].parse(text)
    except Exception as e:
        g2 = e
    if g2 is not g:
        return {"name": name, "status": "viol", "signature": "roundtrip/hr/used-parser",
                "describe": "HRParser.parse(%r): a fresh parser gives %s, a parser that has read other texts before gives %s" %
                            (text[:200], g.serialize()[:150], g2 if isinstance(g2, Exception) else g2.serialize()[:150]), "replay": rp}
    res = {"name": name, "status": "ok", "nontrivial": True, "queries": 0, "t": 0.0}
    if g is f:
        res["same"] = True
        return res
    if g.get_type() != f.get_type():
        return {"name": name, "status": "viol", "signature": "roundtrip/hr/type/%s" % hr_class(f),
                "describe": "HRParser.parse(%r) has type %s, expected %s" % (text[:300], g.get_type(), f.get_type()), "replay": rp}
    # "serialisation differs at most in the grouping of n-ary operators": identical text, or equal AC-flattened keys
    same_text = g.serialize() == text
    v = tv.check_equiv(f, g, timeout_ms)
    res["queries"] = 1
    res["t"] = v.t
    if v.status in ("unsat", "same"):
        if not same_text and rs.ackey(g) != rs.ackey(f):
            return {"name": name, "status": "viol", "signature": "roundtrip/hr/structure/%s" % hr_class(f),
                    "describe": "HRParser.parse(%r) = %s: equivalent but differs by more than n-ary grouping" % (text[:300], g.serialize()[:300]),
                    "replay": rp}
        return res
    if v.status in ("sat", "typechange"):
        return {"name": name, "status": "viol", "signature": "roundtrip/hr/meaning/%s" % hr_class(f),
                "describe": "HRParser.parse(%r) = %s differs under %r" % (text[:300], g.serialize()[:300], v.interp), "replay": rp}
    if v.status == "untranslatable":
        if rs.ackey(g) == rs.ackey(f):
            return res
    return {"name": name + ":" + text[:80], "status": "inconc", "reason": v.status + " " + v.reason}


def gen_hr(env, tier):
    """HR round trip is cheap (mostly an identity test): every level-1 and level-2 term of every sort"""
    from engine.tv.grammar import Grammar, dedup
    g = Grammar(env, widths=(4,) if tier == "quick" else (1, 3, 8))
    l1 = dedup(g.level1())
    l2 = dedup(g.level2(l1))
    forms = [t for _, t in l1] + [t for _, t in l2][::(1 if tier == "thorough" else 2)]
    return c07.BoolUniq(forms + c07.gen_export(env, "quick")[-200:])


def hr_class(f):
    return op.op_to_str(f.node_type())


tv.register("c09-smt", c07.gen_export, check_smt)
tv.register("c09-hr", gen_hr, check_hr)
tv.register("c09-script", gen_scripts, check_script)


def replay(data):
    env = tv.fresh_env()
    if data["k"] == "script":
        r = check_script(env, data["idx"])
    else:
        f = bp.from_bp(data["formula"], env)
        if data.get("prev_text"):
            # history: the shared parser had read this script just before
            try:
                with warnings.catch_warnings():
                    warnings.simplefilter("ignore")
                    shared_parser(env).get_script(io.StringIO(data["prev_text"]))
            except Exception:
                pass
        r = check_smt(env, f, 20000) if data["k"] == "smt" else check_hr(env, f, 20000)
    if r["status"] == "viol":
        return True, r["describe"]
    return False, "status=%s %s" % (r["status"], r.get("reason", ""))


def run(run, only=None):
    run.functions = [{"module": "pysmt/smtlib/printers.py, pysmt/smtlib/parser/parser.py, pysmt/smtlib/script.py, "
                      "pysmt/printers.py, pysmt/parsing.py", "what": "SmtPrinter/SmtDagPrinter + SmtLibParser, "
                      "SmtLibScript.serialize + get_script, HRSerializer + HRParser",
                      "sha1": core.src_sha("pysmt/smtlib/printers.py", "pysmt/smtlib/parser/parser.py", "pysmt/smtlib/script.py",
                                           "pysmt/printers.py", "pysmt/parsing.py")}]
    run.bounds = {"formulas": "the C07 export grammar (see C07 bounds)", "scripts": "%d scripts covering declare/define-fun "
                  "(parameters shadowing globals), push/pop, get-value, named assertions, OMT commands, check-sat-assuming" % len(SCRIPTS)}
    run.outside = ["annotations", "formulas outside the HR parser's fragment (custom sorts, names that are not identifiers)"]
    run.assumptions = ["hash-consing (C04) makes identity the structural equality"]
    for fam in ("smt", "hr", "script"):
        if only and fam not in only:
            continue
        tv.run_family(run, "c09-" + fam, run.tier)
    run.extra["programs"] = run.evaluations
