"""C16 XH harnesses: command histories with symbolic command codes.

  h_solver : IncrementalTrackingSolver over a brute-force stub (wired like the native solvers, @clear_pending_pop on
             the proxies).  After EVERY step `solver.assertions` must equal the live assertions of a reference
             SMT-LIB assertion stack; one-shot queries leave the list as they found it.
  h_script : SmtLibScript.get_last_formula(return_optimizations=True) on a decoded command list vs the reference
             stack (assertions, objectives, soft-clause lists per id with weights).
Illegal sequences (pop below the number of live levels) are excluded by the precondition.
PARAMS: 'first' (fixed first command code), 'len' (number of further symbolic commands).
"""
from crosshair.tracers import NoTracing

from engine.xh.model import new_env

PARAMS = {}

# solver commands
S_CMDS = ["assert", "assert2", "push1", "push2", "pop1", "pop2", "reset", "solve", "is_sat", "is_valid", "is_unsat",
          "solve_assume", "push0", "pop0"]
# script commands
P_CMDS = ["assert", "assert2", "soft_g1_w1", "soft_g1_w2", "soft_g2", "soft_noid", "push1", "push2", "pop1", "pop2", "reset",
          "check", "minimize", "maximize", "push0", "pop0"]


def decode(codes, k):
    """symbolic ints -> concrete command indices (the only symbolic branching)"""
    out = []
    for c in codes:
        idx = -1
        for j in range(k):
            if c == j:
                idx = j
                break
        if idx < 0:
            return None
        out.append(idx)
    return out


class RefStack(object):
    """SMT-LIB assertion stack: a list of frames of events"""

    def __init__(self):
        self.frames = [[]]

    def add(self, ev):
        self.frames[-1].append(ev)

    def push(self, n):
        for _ in range(n):
            self.frames.append([])

    def can_pop(self, n):
        return n <= len(self.frames) - 1

    def pop(self, n):
        for _ in range(n):
            self.frames.pop()

    def reset(self):
        self.frames = [[]]

    def events(self):
        return [e for fr in self.frames for e in fr]

    def assertions(self):
        return [e[1] for e in self.events() if e[0] == "assert"]

    def goals(self):
        """objectives in creation order; a soft id contributes one MaxSMT goal at the position of its first live
        soft clause, holding all its live soft clauses in order"""
        out = []
        pos = {}
        for e in self.events():
            if e[0] == "goal":
                out.append(("goal", e[1], e[2]))
            elif e[0] == "soft":
                if e[1] not in pos:
                    pos[e[1]] = len(out)
                    out.append(("maxsmt", e[1], []))
                out[pos[e[1]]][2].append((e[2], e[3]))
        return out


S_REDUCED = ["assert", "push1", "pop1", "reset", "solve", "is_sat", "solve_assume"]


def solver_body(codes, twin):
    alphabet = (S_REDUCED if PARAMS.get("reduced") else S_CMDS) + ["end"]
    seq = decode(codes, len(alphabet))
    if seq is None:
        return True
    # "end" stops the history early: every prefix is a history of its own.  `assertions` is read ONCE, after the
    # last command: reading it clears a pending pop, so reading after every step would hide the interplay between
    # one-shot queries and the following command.
    if "end" in [alphabet[c] for c in seq]:
        k = [alphabet[c] for c in seq].index("end")
        if any(alphabet[c] != "end" for c in seq[k:]):
            return True        # canonical form: "end" only as a suffix
        seq = seq[:k]
    seq = [PARAMS["first"]] + [S_CMDS.index(alphabet[c]) for c in seq]
    with NoTracing():
        from engine.stubsolver import make_stub_class
        from pysmt import typing as T
        env = new_env(dict_model=False)
        m = env.formula_manager
        solver = make_stub_class()(env)
        ref = RefStack()
        q = m.Symbol("q", T.BOOL)
        cnt = 0
        ok = True
        legal = True
        for c in seq:
            name = S_CMDS[c]
            if name in ("assert", "assert2"):
                f = m.Or(m.Symbol("p%d" % cnt, T.BOOL), q) if name == "assert2" else m.Symbol("p%d" % cnt, T.BOOL)
                cnt += 1
                solver.add_assertion(f)
                ref.add(("assert", f))
            elif name in ("push0", "push1", "push2"):
                k = int(name[-1])
                solver.push(k)
                ref.push(k)
            elif name in ("pop0", "pop1", "pop2"):
                k = int(name[-1])
                if not ref.can_pop(k):
                    legal = False
                    break
                solver.pop(k)
                ref.pop(k)
            elif name == "reset":
                solver.reset_assertions()
                ref.reset()
            elif name == "solve":
                solver.solve()
            elif name == "is_sat":
                solver.is_sat(q)
            elif name == "is_valid":
                solver.is_valid(m.Or(q, m.Not(q)))
            elif name == "is_unsat":
                solver.is_unsat(m.And(q, m.Not(q)))
            elif name == "solve_assume":
                solver.solve([q])
        if legal and list(solver.assertions) != ref.assertions():
            ok = False
        if legal and ok and list(solver.assertions) != ref.assertions():
            ok = False              # reading twice gives the same list
    if not legal:
        return True
    if twin:
        return False
    return ok


P_REDUCED = ["assert", "soft_g1_w1", "soft_g1_w2", "soft_g2", "push1", "push2", "pop1", "pop2", "reset", "minimize", "pop0"]


def script_body(codes, twin):
    alphabet = P_REDUCED if PARAMS.get("reduced") else P_CMDS
    seq = decode(codes, len(alphabet))
    if seq is None:
        return True
    seq = [PARAMS["first"]] + ([PARAMS["second"]] if "second" in PARAMS else []) + [P_CMDS.index(alphabet[c]) for c in seq]
    with NoTracing():
        from pysmt import typing as T
        from pysmt.smtlib.script import SmtLibScript, SmtLibCommand
        import pysmt.smtlib.commands as smtcmd
        from pysmt.optimization.goal import MaxSMTGoal, MinimizationGoal, MaximizationGoal
        env = new_env(dict_model=False)
        m = env.formula_manager
        x, y = m.Symbol("x", T.INT), m.Symbol("y", T.INT)
        script = SmtLibScript()
        ref = RefStack()
        cnt = 0
        legal = True
        for c in seq:
            name = P_CMDS[c]
            if name in ("assert", "assert2"):
                f = m.LT(x, m.Int(cnt)) if name == "assert2" else m.Symbol("p%d" % cnt, T.BOOL)
                cnt += 1
                script.add(smtcmd.ASSERT, [f])
                ref.add(("assert", f))
            elif name.startswith("soft"):
                f = m.Symbol("s%d" % cnt, T.BOOL)
                cnt += 1
                ann = []
                ident = ""
                w = m.Int(1)
                if "g1" in name:
                    ident = "g1"
                if "g2" in name:
                    ident = "g2"
                if name.endswith("w2"):
                    w = m.Int(2)
                    ann.append((":weight", w))
                if name.endswith("w1"):
                    ann.append((":weight", w))
                if ident:
                    ann.append((":id", ident))
                script.add(smtcmd.ASSERT_SOFT, [f, ann])
                ref.add(("soft", ident, f, w))
            elif name in ("push0", "push1", "push2"):
                k = int(name[-1])
                script.add(smtcmd.PUSH, [k])
                ref.push(k)
            elif name in ("pop0", "pop1", "pop2"):
                k = int(name[-1])
                if not ref.can_pop(k):
                    legal = False
                    break
                script.add(smtcmd.POP, [k])
                ref.pop(k)
            elif name == "reset":
                script.add(smtcmd.RESET_ASSERTIONS, [])
                ref.reset()
            elif name == "check":
                script.add(smtcmd.CHECK_SAT, [])
            elif name == "minimize":
                script.add(smtcmd.MINIMIZE, [x, []])
                ref.add(("goal", "min", x))
            elif name == "maximize":
                script.add(smtcmd.MAXIMIZE, [y, [(":signed", False)]])
                ref.add(("goal", "max", y))
        ok = True
        if legal:
            formula, goals = script.get_last_formula(mgr=m, return_optimizations=True)
            ok = formula is m.And(ref.assertions())
            rg = ref.goals()
            if len(goals) != len(rg):
                ok = False
            else:
                for g, r in zip(goals, rg):
                    if r[0] == "goal":
                        cls = MinimizationGoal if r[1] == "min" else MaximizationGoal
                        if type(g) is not cls or g.term() is not r[2]:
                            ok = False
                    else:
                        # weights: same numeric value (MaxSMTGoal stores Int weights as Reals by default)
                        got = [(f, w.constant_value()) for f, w in g.soft]
                        exp = [(f, w.constant_value()) for f, w in r[2]]
                        if type(g) is not MaxSMTGoal or len(got) != len(exp) or \
                                any(gf is not ef or gw != ew for (gf, gw), (ef, ew) in zip(got, exp)):
                            ok = False
            # a second evaluation of the same script gives the same answer (no state kept in the goals)
            formula2, goals2 = script.get_last_formula(mgr=m, return_optimizations=True)
            if formula2 is not formula or len(goals2) != len(goals):
                ok = False
    if not legal:
        return True
    if twin:
        return False
    return ok


def h_solver(c1: int, c2: int, c3: int, c4: int) -> bool:
    """
    pre: True
    post: _
    """
    return solver_body([c1, c2, c3, c4][:PARAMS["len"]], False)


def h_solver_twin(c1: int, c2: int, c3: int, c4: int) -> bool:
    """
    pre: True
    post: _
    """
    return solver_body([c1, c2, c3, c4][:PARAMS["len"]], True)


def h_script(c1: int, c2: int, c3: int, c4: int) -> bool:
    """
    pre: True
    post: _
    """
    return script_body([c1, c2, c3, c4][:PARAMS["len"]], False)


def h_script_twin(c1: int, c2: int, c3: int, c4: int) -> bool:
    """
    pre: True
    post: _
    """
    return script_body([c1, c2, c3, c4][:PARAMS["len"]], True)


# ---- inductive step over the tracker state: ANY history that leads to a state inside the bound, then one command ------------------
def inv_holds(solver, frames, oneshot):
    """representation invariant of IncrementalTrackingSolver + stub back-end w.r.t. the reference frames:
    the tracked list is the concatenation of the frames (+ the one-shot formula while a pop is pending), the LIVE backtrack points
    (the last len(frames)-1, +1 while a pop is pending) are the prefix sums, the back-end holds the same frames."""
    flat = [f for fr in frames for f in fr]
    S = list(solver._assertion_stack)
    P = list(solver._backtrack_points)
    sums = []
    acc = 0
    for fr in frames[:-1]:
        acc += len(fr)
        sums.append(acc)
    if oneshot is not None:
        if not solver.pending_pop:
            return False
        expS = flat + [oneshot]
        expP = sums + [len(flat)]
        expB = [list(fr) for fr in frames] + [[oneshot]]
    else:
        if solver.pending_pop:
            return False
        expS, expP, expB = flat, sums, [list(fr) for fr in frames]
    if S != expS:
        return False
    if len(P) < len(expP) or (expP and P[len(P) - len(expP):] != expP):
        return False
    return [list(fr) for fr in solver.frames] == expB


def state_step_body(s0, s1, s2, d, stale, pend, twin):
    sizes = decode([s0, s1, s2], 3)
    dd = decode([d], 3)
    st = decode([stale], 3)
    if sizes is None or dd is None or st is None:
        return True
    depth, nstale = dd[0], st[0]
    pending = True if pend else False
    cmd = PARAMS["cmd"]
    with NoTracing():
        from engine.stubsolver import make_stub_class
        from pysmt import typing as T
        env = new_env(dict_model=False)
        m = env.formula_manager
        solver = make_stub_class()(env)
        q = m.Symbol("q", T.BOOL)
        # canonical history of the abstract state (stale backtrack points of frames dropped by a reset, `depth` live frames of
        # the given sizes, optionally a one-shot query whose pop is still pending)
        if nstale:
            solver.push(nstale)
            solver.add_assertion(m.Symbol("dropped", T.BOOL))
            solver.reset_assertions()
        frames = [[]]
        cnt = 0
        for k in range(depth + 1):
            if k > 0:
                solver.push()
                frames.append([])
            for _ in range(sizes[k]):
                f = m.Symbol("p%d" % cnt, T.BOOL)
                cnt += 1
                solver.add_assertion(f)
                frames[-1].append(f)
        oneshot = None
        if pending:
            solver.is_sat(q)
            oneshot = q
        pre_ok = inv_holds(solver, frames, oneshot)
        ok = pre_ok
        legal = True
        name = S_CMDS[cmd]
        post_oneshot = None
        # every command first clears a pending pop (reference: the one-shot frame is gone)
        if ok:
            if name in ("assert", "assert2"):
                f = m.Or(m.Symbol("n0", T.BOOL), q) if name == "assert2" else m.Symbol("n0", T.BOOL)
                solver.add_assertion(f)
                frames[-1].append(f)
            elif name in ("push0", "push1", "push2"):
                k = int(name[-1])
                solver.push(k)
                for _ in range(k):
                    frames.append([])
            elif name in ("pop0", "pop1", "pop2"):
                k = int(name[-1])
                if k > len(frames) - 1:
                    legal = False
                else:
                    solver.pop(k)
                    for _ in range(k):
                        frames.pop()
            elif name == "reset":
                solver.reset_assertions()
                frames = [[]]
            elif name == "solve":
                solver.solve()
            elif name == "solve_assume":
                solver.solve([q])
            elif name == "is_sat":
                solver.is_sat(q)
                post_oneshot = q
            elif name == "is_valid":
                g = m.Or(q, m.Not(q))
                solver.is_valid(g)
                post_oneshot = m.Not(g)
            elif name == "is_unsat":
                g = m.And(q, m.Not(q))
                solver.is_unsat(g)
                post_oneshot = g
            if legal:
                ok = inv_holds(solver, frames, post_oneshot)
                flat = [f for fr in frames for f in fr]
                if ok and list(solver.assertions) != flat:
                    ok = False
                if ok and not inv_holds(solver, frames, None):
                    ok = False          # reading the assertions leaves a state of the same family (pop no longer pending)
    if not legal:
        return True
    if twin:
        return False
    return ok


def h_state_step(s0: int, s1: int, s2: int, d: int, stale: int, pend: bool) -> bool:
    """
    post: _
    """
    return state_step_body(s0, s1, s2, d, stale, pend, False)


def h_state_step_twin(s0: int, s1: int, s2: int, d: int, stale: int, pend: bool) -> bool:
    """
    post: _
    """
    return state_step_body(s0, s1, s2, d, stale, pend, True)
