"""C14 XH harness: inductive step over the long-lived state of an environment.

Pre-state: an environment in which an ARBITRARY SUBSET (symbolic bit mask) of a pool of earlier API calls has been
made on formulas that share sub-DAGs with the formula of the call under test - so every persistent memo table
holds the entries of an arbitrary subset of the sub-terms.  Step: one call under test (PARAMS['call']).
Post: (1) its result equals the result in a fresh twin environment (AC-canonical key, fresh-symbol names
abstracted); (2) repeating it returns the very same object (calls that introduce no fresh symbol);
(3) every entry of every persistent memo table still equals the value a fresh environment computes for that
sub-term - the re-established invariant that lets one step stand for histories of any length.
"""
import io
import re

from crosshair.tracers import NoTracing

from engine.xh.model import new_env
from engine.ref import refstruct as rs

PARAMS = {}

NPRE = 10


def universe(env):
    from pysmt import typing as T
    m = env.formula_manager
    tm = env.type_manager
    a, b = m.Symbol("a", T.BOOL), m.Symbol("b", T.BOOL)
    x, y, z = m.Symbol("x", T.INT), m.Symbol("y", T.INT), m.Symbol("z", T.INT)
    s, t = m.Symbol("s", T.STRING), m.Symbol("t", T.STRING)
    r = m.Symbol("r", T.REAL)
    f = m.Symbol("f", tm.FunctionType(T.INT, [T.INT]))
    xyz = m.Plus(x, y, z)
    xc = m.Plus(x, m.Int(1))
    sh = m.LT(xc, m.Times(y, m.Int(2)))
    # one formula per TheoryOracle / type-checker handler class over the SAME leaves (their memo entries are shared with the calls
    # under test): mixed-sort predicate, Boolean-only array value, bit-vector and string operators, ite, quantifier, division
    pxb = m.Symbol("pxb", tm.FunctionType(T.BOOL, [T.INT, T.BOOL]))
    gb = m.Symbol("gb", tm.FunctionType(T.INT, [T.BOOL, T.INT]))
    bv = m.Symbol("bv", tm.BVType(4))
    arr = m.Symbol("arr", tm.ArrayType(T.INT, T.INT))
    handlers = [
        m.Function(pxb, [x, a]), m.Equals(m.Function(gb, [b, y]), z), m.Function(pxb, [xyz, m.TRUE()]),
        m.Equals(m.Array(T.BOOL, m.TRUE(), {m.FALSE(): m.FALSE()}), m.Array(T.BOOL, m.FALSE())),
        m.Equals(m.Select(m.Array(T.INT, x, {m.Int(1): y}), z), x), m.Equals(m.Select(arr, x), m.Select(m.Store(arr, y, z), x)),
        m.BVULT(bv, m.BVAdd(bv, m.BV(1, 4))), m.Equals(m.BVToNatural(bv), x), m.Equals(m.BVToNatural(m.Ite(a, bv, m.BVNot(bv))), y),
        m.Equals(m.StrLength(s), x), m.Equals(m.StrIndexOf(s, t, y), z), m.Equals(m.IntToStr(x), s), m.StrContains(m.IntToStr(y), t),
        m.Equals(m.Ite(a, x, y), z), m.Iff(a, m.LT(x, y)), m.LT(m.Times(x, y), z), m.LT(m.Div(x, m.Int(2)), y), m.LT(m.Div(x, y), z),
        m.LT(m.ToReal(x), r), m.LT(m.Pow(r, m.Real(2)), r), m.ForAll([x], m.LT(x, y)), m.Exists([a], m.Or(a, b)),
        m.Not(a), m.And(a, m.Not(b)), m.Implies(b, a), m.Equals(m.Minus(x, y), z), m.LE(m.Plus(x, m.Int(1)), y),
    ]
    U = {
        "handlers": handlers,
        "strlen": m.Equals(m.StrLength(m.IntToStr(xyz)), m.Int(1)),
        "sum": m.LE(xyz, m.Int(0)),
        "toint": m.LT(m.Int(0), m.StrToInt(s)),
        "contains": m.StrContains(s, t),
        "f1": m.And(sh, m.Or(a, m.Not(sh)), m.Equals(m.Function(f, [xc]), z)),
        "f2": m.Implies(m.And(a, sh), m.ForAll([x], m.Exists([y], m.LT(m.Plus(x, y), xc)))),
        "f3": m.Ite(sh, m.Plus(xc, xc, z), m.Minus(xc, m.Int(0))),
        "f4": m.Iff(m.And(a, b, m.TRUE()), m.Or(m.LE(z, xc), m.Not(b))),
        "idl": m.LE(m.Minus(x, y), m.Int(3)),
        "mixed": m.LT(m.ToReal(xyz), r),
        "x": x, "y": y, "z": z, "a": a, "b": b, "xc": xc, "sh": sh, "xyz": xyz, "s": s, "t": t,
    }
    return U


def pre_calls(env, U):
    """pool of earlier calls (their results are irrelevant)"""
    from pysmt.oracles import get_logic
    m = env.formula_manager
    def quiet(thunk):
        try:
            return thunk()
        except Exception:
            return None
    from pysmt import typing as T
    H = U["handlers"]
    real_sym = m.Symbol("r", T.REAL)
    return [
        lambda: (get_logic(U["strlen"], env), [quiet(lambda h=h: get_logic(h, env)) for h in H[0::3]]),
        lambda: (get_logic(U["toint"], env), [quiet(lambda h=h: env.theoryo.get_theory(h)) for h in H[1::3]]),
        lambda: (U["f1"].simplify(), U["f3"].simplify(), [quiet(lambda h=h: h.simplify()) for h in H[2::3]]),
        lambda: (U["f2"].get_free_variables(), U["f1"].get_atoms(), [quiet(lambda h=h: (h.get_atoms(), h.get_free_variables())) for h in H[0::2]]),
        lambda: (U["f3"].size(0), U["f3"].size(1), U["f1"].size(5)),
        # a successful substitution followed by one that FAILS half-way (ill-sorted value): also a way of having used the environment
        lambda: (U["f1"].substitute({U["x"]: U["y"]}), quiet(lambda: U["f1"].substitute({U["z"]: U["y"], U["x"]: real_sym})),
                 quiet(lambda: U["f2"].substitute({U["a"]: U["b"], U["z"]: real_sym}))),
        lambda: (env.theoryo.get_theory(U["xyz"]), env.theoryo.get_theory(U["sh"]), env.qfo.is_qf(U["f2"])),
        lambda: (U["f4"].to_smtlib(), U["f2"].serialize(), env.typeso.get_types(U["f1"])),
        lambda: (get_logic(U["mixed"], env), [quiet(lambda h=h: (get_logic(h, env), env.typeso.get_types(h))) for h in H[2::3]]),
        lambda: (get_logic(U["f2"], env), U["f4"].simplify(), m.And(U["sh"], U["a"]).get_type(),
                 [quiet(lambda h=h: (env.qfo.is_qf(h), h.size())) for h in H[1::2]]),
    ]


def calls_under_test(env, U):
    from pysmt.oracles import get_logic
    from pysmt.rewritings import nnf, cnf, prenex_normal_form
    from pysmt.smtlib.parser import SmtLibParser
    m = env.formula_manager
    return {
        "logic-sum": (lambda: get_logic(U["sum"], env), True),
        "logic-idl": (lambda: get_logic(U["idl"], env), True),
        "theory-contains": (lambda: str(env.theoryo.get_theory(U["contains"])), False),
        "theory-sum": (lambda: str(env.theoryo.get_theory(U["sum"])), False),
        "theory-xyz": (lambda: str(env.theoryo.get_theory(U["xyz"])), False),
        "theory-leaves": (lambda: [str(env.theoryo.get_theory(U[k])) for k in ("x", "y", "a", "b", "s", "xc", "sh")] +
                          [str(env.theoryo.get_theory(m.TRUE())), str(env.theoryo.get_theory(m.Int(1))),
                           str(get_logic(m.LT(U["x"], U["y"]), env)), str(get_logic(m.And(U["a"], U["b"]), env))], False),
        "simplify-f1": (lambda: U["f1"].simplify(), True),
        "simplify-f3": (lambda: U["f3"].simplify(), True),
        "substitute-f1": (lambda: U["f1"].substitute({U["x"]: U["z"], U["a"]: U["b"]}), True),
        "substitute-f2": (lambda: U["f2"].substitute({U["z"]: m.Int(5)}), True),
        "freevars-f2": (lambda: U["f2"].get_free_variables(), False),
        "atoms-f1": (lambda: U["f1"].get_atoms(), False),
        "size-f3-0": (lambda: U["f3"].size(0), False),
        "size-f3-1": (lambda: U["f3"].size(1), False),
        "size-f3-3": (lambda: U["f3"].size(3), False),
        "size-f4-default": (lambda: U["f4"].size(), False),
        "size-f1-default": (lambda: (U["f1"].size(), U["f1"].size(0)), False),
        "types-f1": (lambda: sorted(str(t) for t in env.typeso.get_types(U["f1"])), False),
        "type-sh": (lambda: str(U["sh"].get_type()), False),
        "print-f4": (lambda: U["f4"].to_smtlib(), False),
        "hr-f2": (lambda: U["f2"].serialize(), False),
        "parse": (lambda: SmtLibParser(env).get_script(io.StringIO(
            "(declare-fun x () Int)(declare-fun y () Int)(assert (< (+ x 1) (* y 2)))")).get_last_formula(), True),
        "nnf-f2": (lambda: nnf(U["f2"], env), True),
        "cnf-f4": (lambda: cnf(U["f4"], env), False),
        "prenex-f2": (lambda: prenex_normal_form(U["f2"], env), False),
        "qf-f2": (lambda: env.qfo.is_qf(U["f2"]), False),
    }


FRESH = re.compile(r"^(FV|ack)\d+$")


def key_of(v):
    from pysmt.fnode import FNode
    if isinstance(v, FNode):
        names = {}
        for s in sorted((s.symbol_name() for s in rs.all_symbols(v) if FRESH.match(s.symbol_name())), key=lambda n: (len(n), n)):
            names[s] = "%%fresh%d" % len(names)
        return ("F", rs.ackey(v, {}, names))
    if isinstance(v, (set, frozenset, list, tuple)):
        return ("S", tuple(sorted(repr(key_of(x)) for x in v)))
    return ("V", str(v))


def memo_tables(env):
    return {"simplifier": env.simplifier, "stc": env.stc, "fvo": env.fvo, "ao": env.ao, "qfo": env.qfo,
            "theoryo": env.theoryo, "typeso": env.typeso, "sizeo": env.sizeo}


def memo_snapshot(env):
    """{(walker, key of memo key) -> key of memo value}"""
    from pysmt.fnode import FNode
    out = {}
    for nm, w in memo_tables(env).items():
        for k, v in list(w.memoization.items()):
            if isinstance(k, tuple):
                kk = tuple(key_of(p) if isinstance(p, FNode) else ("V", str(p)) for p in k)
            else:
                kk = key_of(k)
            out[(nm, repr(kk))] = repr(key_of(v)) if not isinstance(v, (int, bool)) else repr(v)
    return out


def fresh_memo_value(tenv, TU_index, walker_name, key_repr):
    return None


_REF = {}


def reference(call):
    """(mask-independent, computed once per process) result of the call in a fresh environment, and the memo entries
    of an environment in which every call of the pool was made exactly once in a fixed order"""
    if call not in _REF:
        tenv = new_env(dict_model=False)
        TU = universe(tenv)
        exp = key_of(calls_under_test(tenv, TU)[call][0]())
        renv = new_env(dict_model=False)
        RU = universe(renv)
        for nm, (f2, _) in calls_under_test(renv, RU).items():
            f2()
        for pc in reversed(pre_calls(renv, RU)):
            pc()
        _REF[call] = (exp, memo_snapshot(renv))
    return _REF[call]


def step_body(m0, m1, m2, m3, m4, m5, m6, m7, m8, m9, twin):
    bits = [m0, m1, m2, m3, m4, m5, m6, m7, m8, m9]
    chosen = []
    for i in range(NPRE):
        if bits[i]:                    # symbolic: which earlier calls were made
            chosen.append(i)
    call = PARAMS["call"]
    with NoTracing():
        env = new_env(dict_model=False)
        U = universe(env)
        pcs = pre_calls(env, U)
        for i in chosen:
            pcs[i]()
        fn, identity = calls_under_test(env, U)[call]
        r1 = fn()
        r2 = fn()
        got = key_of(r1)
        same_obj = (r1 is r2) if identity else (key_of(r2) == got)
        snap = memo_snapshot(env)
        exp, ref = reference(call)
        bad_memo = [k for k, v in snap.items() if k in ref and ref[k] != v]
        ok = (got == exp) and same_obj and not bad_memo
    if twin:
        return False
    return ok


def h_step(m0: bool, m1: bool, m2: bool, m3: bool, m4: bool, m5: bool, m6: bool, m7: bool, m8: bool, m9: bool) -> bool:
    """
    post: _
    """
    return step_body(m0, m1, m2, m3, m4, m5, m6, m7, m8, m9, False)


def h_step_twin(m0: bool, m1: bool, m2: bool, m3: bool, m4: bool, m5: bool, m6: bool, m7: bool, m8: bool, m9: bool) -> bool:
    """
    post: _
    """
    return step_body(m0, m1, m2, m3, m4, m5, m6, m7, m8, m9, True)


CALLS = ["logic-sum", "logic-idl", "theory-contains", "theory-sum", "theory-xyz", "theory-leaves", "simplify-f1", "simplify-f3", "substitute-f1",
         "substitute-f2", "freevars-f2", "atoms-f1", "size-f3-0", "size-f3-1", "size-f3-3", "size-f4-default", "size-f1-default", "types-f1", "type-sh", "print-f4",
         "hr-f2", "parse", "nnf-f2", "cnf-f4", "prenex-f2", "qf-f2"]
