"""C05 - substitution lemma and replacement order.

tv-lemma  : f.substitute(sigma) (real MGS and MSS substituters, symbol keys) vs z3.substitute on the
            independent translation of f - z3's substitution IS the right-hand side of the substitution lemma
            (bound variables are de Bruijn indices there); equivalence under all interpretations by z3.
tv-funint : function interpretations vs the macro premise  forall args. g(args) = body.
xh-order  : term-keyed maps (MGS / MSS order) against an independent recursive definition, key masks as
            symbolic selector bits (engine XH) - see props/c05_xh.py.
"""
import itertools

import z3

from pysmt import operators as op
from pysmt import typing as T

from engine import blueprint as bp
from engine import core
from engine.ref import refstruct as rs
from engine.ref import refsubst
from engine.ref.tr_z3 import Z3Tr, Untranslatable
from engine.tv import driver as tv
from engine.tv.grammar import Grammar, dedup
from engine.tv.boolgrammar import BoolGrammar

LEVEL = "translation_validation"


def bound_vars(f):
    out = set()
    for t in rs.subterms(f):
        if t.node_type() in (op.FORALL, op.EXISTS):
            out |= set(t.quantifier_vars())
    return out


def substituters(env):
    from pysmt.substituter import MGSubstituter, MSSubstituter
    return {"mgs": MGSubstituter(env), "mss": MSSubstituter(env)}


def value_pool(g, sort, key):
    """replacement terms of `sort` for `key`: other symbol, constants, terms mentioning the key itself and
    the other symbol of the sort (so that simultaneous vs sequential replacement is distinguishable)."""
    m = g.m
    syms = g.sym.get(sort, [])
    other = [s for s in syms if s is not key]
    vals = list(other[:1]) + list(g.const.get(sort, [])[:2])
    o = other[0] if other else key
    if sort.is_bool_type():
        vals += [m.Not(key), m.And(key, o), m.LT(g.sym[g.I][0], g.sym[g.I][1])]
    elif sort.is_int_type():
        vals += [m.Plus(key, m.Int(1)), m.Times(o, m.Int(2)), m.Minus(o, key)]
    elif sort.is_real_type():
        vals += [m.Plus(key, m.Real(1)), m.Times(o, key)]
    elif sort.is_bv_type():
        vals += [m.BVNot(key), m.BVAdd(o, key)]
    elif sort.is_string_type():
        vals += [m.StrConcat(key, o)]
    elif sort.is_array_type() and sort.index_type.is_int_type():
        vals += [m.Store(key, m.Int(0), m.Int(1))]
    return vals


def gen_lemma(env, tier):
    g = Grammar(env, widths=(2,) if tier == "quick" else (1, 3))
    l1 = dedup(g.level1())
    forms = [t for _, t in l1]
    if tier == "thorough":
        l2 = dedup(g.level2(l1))
        forms += [t for _, t in l2][::9]
    else:
        l2 = dedup(g.level2(l1))
        forms += [t for _, t in l2][::101]
    # nested / shadowing quantifier shapes
    m = g.m
    a, b = g.sym[g.B]
    i, j = g.sym[g.I]
    x, y = g.sym[g.bvs[0]]
    qs = [m.ForAll([i], m.And(m.LT(i, j), m.Exists([i], m.LT(j, i)))),
          m.And(m.LT(i, j), m.ForAll([i], m.Exists([j], m.LT(i, j)))),
          m.Or(a, m.ForAll([a], m.Or(a, b)), m.Exists([b], m.Iff(a, b))),
          m.ForAll([x], m.Exists([y], m.And(m.BVULT(x, y), m.ForAll([x], m.Equals(x, y))))),
          m.And(m.Equals(x, y), m.Exists([x], m.BVULT(x, y))),
          m.ForAll([i, a], m.Implies(a, m.Exists([j], m.And(m.LT(i, j), b)))),
          m.Exists([i], m.Equals(m.Function(g.fI, [i]), j)),
          m.ForAll([j], m.Function(g.pI, [m.Plus(i, j)]))]
    bg = BoolGrammar(env, atoms="mixed", quantifiers=True)
    qs += bg.levels("quick")[::17 if tier == "quick" else 3]
    forms += qs
    insts = []
    seen = set()
    for f in forms:
        fv = [s for s in sorted(rs.all_symbols(f), key=lambda s: s.symbol_name()) if s.is_term()]
        fv = fv[:3]
        if not fv:
            continue
        pools = []
        for k in fv:
            pools.append(value_pool(g, k.symbol_type(), k))
        maps = []
        for k, pool in zip(fv, pools):
            for v in pool:
                maps.append(((k, v),))
        if len(fv) >= 2:
            k0, k1 = fv[0], fv[1]
            for v0, v1 in itertools.product(pools[0][:4], pools[1][:4]):
                maps.append(((k0, v0), (k1, v1)))
            if k0.symbol_type() == k1.symbol_type():
                maps.append(((k0, k1), (k1, k0)))          # swap
        if len(fv) >= 3:
            maps.append(tuple((k, p[0]) for k, p in zip(fv, pools) if p))
            maps.append(tuple((k, p[-1]) for k, p in zip(fv, pools) if p))
        for mp in maps:
            for strat in ("mgs", "mss"):
                key = (f, mp, strat)
                if key in seen:
                    continue
                seen.add(key)
                insts.append((strat, f, mp))
    return insts


def check_lemma(env, inst, timeout_ms=5000, subs=None):
    strat, f, mp = inst
    name = "lemma-" + strat
    sigma = dict(mp)
    # the property's proviso: no free symbol of a replacement term falls under a quantifier binding it
    bv = bound_vars(f)
    for v in sigma.values():
        if rs.free_vars(v) & bv:
            return {"name": name, "status": "ok", "skipped": True}
    S = substituters(env)[strat]
    try:
        g = S.substitute(f, sigma)
    except Exception as e:
        return {"name": name, "status": "viol", "signature": "substitute/%s/raises:%s" % (strat, type(e).__name__),
                "describe": "%s.substitute(%s, %s) raises %r" % (strat, f.serialize(), sigma, e),
                "replay": {"k": "lemma", "strat": strat, "formula": bp.to_bp(f),
                           "map": [[bp.to_bp(k), bp.to_bp(v)] for k, v in mp]}}
    res = {"name": name, "status": "ok", "nontrivial": g is not f}
    if strat == "mgs" and mp:
        # the environment's shared substituter (the one FNode.substitute / shortcuts use), right after a call on the same
        # formula that fails half-way (ill-sorted replacement): must give the very same object as the fresh substituter
        m = env.formula_manager
        bad = dict(sigma)
        k0 = mp[0][0]
        bad[k0] = m.Int(0) if k0.get_type().is_bool_type() else m.Bool(True)
        try:
            env.substituter.substitute(f, bad)
        except Exception:
            pass
        try:
            g2 = env.substituter.substitute(f, sigma)
        except Exception as e:
            g2 = e
        if g2 is not g:
            return {"name": name, "status": "viol", "signature": "substitute/shared-after-failure",
                    "describe": "env.substituter.substitute(%s, %s) right after a failing substitution of the same formula gives %s, a "
                                "fresh substituter gives %s" % (f.serialize(), {str(k): str(v) for k, v in mp},
                                                                 g2 if isinstance(g2, Exception) else g2.serialize(), g.serialize()),
                    "replay": {"k": "lemma", "strat": strat, "formula": bp.to_bp(f),
                               "map": [[bp.to_bp(k), bp.to_bp(v)] for k, v in mp]}}
    if g.get_type() != f.get_type():
        return {"name": name, "status": "viol", "signature": "substitute/%s/type" % strat,
                "describe": "%s.substitute(%s, %s) changes type" % (strat, f.serialize(), sigma),
                "replay": {"k": "lemma", "strat": strat, "formula": bp.to_bp(f),
                           "map": [[bp.to_bp(k), bp.to_bp(v)] for k, v in mp]}}
    try:
        ref = (refsubst.mgs if strat == "mgs" else refsubst.mss)(env.formula_manager, f, sigma)
    except Exception as e:
        ref = None
    if ref is not None and ref is not g:
        return {"name": name, "status": "viol", "signature": "substitute/%s/order" % strat,
                "describe": "%s.substitute(%s, %s) = %s but the documented replacement is %s" %
                            (strat, f.serialize(), {str(k): str(v) for k, v in mp}, g.serialize(), ref.serialize()),
                "replay": {"k": "lemma", "strat": strat, "formula": bp.to_bp(f),
                           "map": [[bp.to_bp(k), bp.to_bp(v)] for k, v in mp]}}
    tr = Z3Tr()
    try:
        zf = tr.tr(f)
        pairs = [(tr.tr(k), tr.tr(v)) for k, v in mp]
        zg = tr.tr(g)
    except Untranslatable as e:
        return {"name": name, "status": "inconc", "reason": str(e)}
    expected = z3.substitute(zf, *pairs)
    if expected.eq(zg):
        res["same"] = True
        return res
    st, mo, dt = tv.check_valid(expected == zg, timeout_ms, premises=tr.defined)
    res["queried"] = True
    res["t"] = dt
    if st == "unsat":
        res["sample"] = {"strategy": strat, "formula": f.serialize(), "map": {str(k): str(v) for k, v in mp},
                         "result": g.serialize(), "verdict": "equal to z3.substitute(tr(f)) under all interpretations"}
        return res
    if st == "sat":
        sig = "substitute/%s/lemma/%s" % (strat, rs.shape(f))
        if strat == "mss":
            try:
                if refsubst.mss(env.formula_manager, f, sigma) is g:
                    # the result IS the documented most-specific replacement: a rebuilt node collapsed (by a
                    # constructor normalisation such as double negation) onto a key and was looked up again
                    sig = "substitute/mss/lemma/documented-relookup-after-collapse"
            except Exception:
                pass
        return {"name": name, "status": "viol", "signature": sig,
                "queried": True, "t": dt,
                "describe": "%s.substitute(%s, %s) = %s violates the substitution lemma" %
                            (strat, f.serialize(), {str(k): str(v) for k, v in mp}, g.serialize()),
                "replay": {"k": "lemma", "strat": strat, "formula": bp.to_bp(f),
                           "map": [[bp.to_bp(k), bp.to_bp(v)] for k, v in mp]}}
    return {"name": "%s:%s" % (name, f.serialize()), "status": "inconc", "reason": "unknown %s" % mo, "queried": True, "t": dt}


# ---- function interpretations --------------------------------------------------------------------------------------
def gen_funint(env, tier):
    from pysmt.substituter import FunctionInterpretation
    g = Grammar(env, widths=(2,))
    m = g.m
    i, j = g.sym[g.I]
    r, s = g.sym[g.R]
    a, b = g.sym[g.B]
    x, y = g.sym[g.bvs[0]]
    p0 = m.Symbol("p0", T.INT)
    q0, q1 = m.Symbol("q0", T.REAL), m.Symbol("q1", T.REAL)
    b0 = m.Symbol("b0", T.BOOL)
    v0 = m.Symbol("v0", g.bvs[0])
    interps = {
        "fI": [(g.fI, [p0], m.Plus(p0, m.Int(1))), (g.fI, [p0], m.Int(7)), (g.fI, [p0], m.Times(p0, p0)),
               (g.fI, [i], m.Minus(i, m.Int(2)))],      # formal parameter named like a global symbol
        "pI": [(g.pI, [p0], m.LT(p0, m.Int(0))), (g.pI, [j], m.Equals(j, m.Int(3)))],
        "gR": [(g.gR, [q0, q1], m.Minus(q0, q1)), (g.gR, [q0, q1], q1), (g.gR, [r, s], m.Plus(s, s))],
        "hB": [(g.hB, [b0], m.Not(b0)), (g.hB, [a], a)],
        "fV": [(g.fV[g.bvs[0]], [v0], m.BVNot(v0)), (g.fV[g.bvs[0]], [x], m.BVAdd(x, x))],
    }
    F = lambda fn, *args: m.Function(fn, list(args))
    fV = g.fV[g.bvs[0]]
    forms = [
        m.Equals(F(g.fI, i), j), m.Equals(F(g.fI, F(g.fI, i)), F(g.fI, j)), m.LT(F(g.fI, m.Plus(i, m.Int(1))), i),
        F(g.pI, F(g.fI, i)), m.And(F(g.pI, i), m.Not(F(g.pI, j))), m.Ite(F(g.pI, i), F(g.fI, i), F(g.fI, j)),
        m.LE(F(g.gR, r, s), F(g.gR, s, r)), m.Equals(F(g.gR, F(g.gR, r, s), r), s),
        F(g.hB, F(g.hB, a)), m.Iff(F(g.hB, a), b), m.Equals(F(fV, x), y), m.BVULT(F(fV, F(fV, x)), F(fV, y)),
        m.ForAll([i], F(g.pI, F(g.fI, i))), m.Exists([j], m.Equals(F(g.fI, j), i)),
        m.ForAll([i], m.Exists([j], m.LT(F(g.fI, i), F(g.fI, j)))),
        m.And(F(g.pI, i), m.ForAll([i], m.Implies(F(g.pI, i), m.LT(F(g.fI, i), j)))),
        m.Equals(m.Select(m.Store(g.sym[g.AII][0], F(g.fI, i), F(g.fI, j)), i), F(g.fI, m.Int(0))),
    ]
    insts = []
    for f in forms:
        used = [fs for fs in rs.free_vars(f) if not fs.is_term()]
        choices = []
        for fs in used:
            key = [k for k, lst in interps.items() if lst[0][0] is fs][0]
            choices.append(interps[key])
        for combo in itertools.product(*choices):
            for strat in ("mgs", "mss"):
                insts.append((strat, f, combo))
            # partial interpretation: only the first function symbol
            if len(combo) > 1:
                insts.append(("mgs", f, combo[:1]))
    return insts


def check_funint(env, inst, timeout_ms=8000):
    from pysmt.substituter import FunctionInterpretation
    strat, f, combo = inst
    name = "funint-" + strat
    desc = {str(fs): "lambda %s. %s" % ([str(p) for p in ps], body.serialize()) for fs, ps, body in combo}
    rp = {"k": "funint", "strat": strat, "formula": bp.to_bp(f),
          "interps": [[bp.to_bp(fs), [bp.to_bp(p) for p in ps], bp.to_bp(body)] for fs, ps, body in combo]}
    bv = bound_vars(f)
    S = substituters(env)[strat]
    try:
        interps = {fs: FunctionInterpretation(ps, body) for fs, ps, body in combo}
        g = S.substitute(f, interpretations=interps)
    except Exception as e:
        return {"name": name, "status": "viol", "signature": "funint/%s/raises:%s" % (strat, type(e).__name__),
                "describe": "substitute(%s, interpretations=%s) raises %r" % (f.serialize(), desc, e), "replay": rp}
    left = [t for t in rs.subterms(g) if t.node_type() == op.FUNCTION and t.function_name() in interps]
    if left:
        return {"name": name, "status": "viol", "signature": "funint/%s/left-application" % strat,
                "describe": "substitute(%s, interpretations=%s) = %s keeps %s" % (f.serialize(), desc, g.serialize(), left),
                "replay": rp}
    tr = Z3Tr()
    try:
        zf, zg = tr.tr(f), tr.tr(g)
        macros = []
        for fs, ps, body in combo:
            # body over de Bruijn variables Var(0..n-1): z3.substitute_funs instantiates it at every application
            zvars = [z3.Var(k, tr.sort(p.symbol_type())) for k, p in enumerate(ps)]
            tr._bound.append(dict(zip(ps, zvars)))
            try:
                zb = tr._tr(body, {})
            finally:
                tr._bound.pop()
            macros.append((tr.symbol(fs), zb))
        expected = z3.substitute_funs(zf, *macros)
    except Untranslatable as e:
        return {"name": name, "status": "inconc", "reason": str(e)}
    if expected.eq(zg):
        return {"name": name, "status": "ok", "same": True, "nontrivial": True}
    st, mo, dt = tv.check_valid(expected == zg, timeout_ms, premises=tr.defined)
    res = {"name": name, "status": "ok", "queried": True, "t": dt, "nontrivial": True}
    if st == "unsat":
        res["sample"] = {"strategy": strat, "formula": f.serialize(), "interpretations": desc, "result": g.serialize(),
                         "verdict": "equal to z3.substitute_funs(tr(f), macros) under all interpretations"}
        return res
    if st == "sat":
        return {"name": name, "status": "viol", "signature": "funint/%s/value" % strat, "queried": True, "t": dt,
                "describe": "substitute(%s, interpretations=%s) = %s differs" % (f.serialize(), desc, g.serialize()),
                "replay": rp}
    return {"name": "%s:%s" % (name, f.serialize()), "status": "inconc", "reason": "unknown %s" % mo, "queried": True, "t": dt}


tv.register("c05-lemma", gen_lemma, check_lemma)
tv.register("c05-funint", gen_funint, check_funint)


def replay(data):
    if data.get("kind") == "xh-order":
        from props import c05_xh
        return c05_xh.replay(data)
    env = tv.fresh_env()
    f = bp.from_bp(data["formula"], env)
    if data["k"] == "lemma":
        mp = tuple((bp.from_bp(k, env), bp.from_bp(v, env)) for k, v in data["map"])
        r = check_lemma(env, (data["strat"], f, mp), timeout_ms=20000)
    elif data["k"] == "funint":
        combo = tuple((bp.from_bp(fs, env), [bp.from_bp(p, env) for p in ps], bp.from_bp(body, env))
                      for fs, ps, body in data["interps"])
        r = check_funint(env, (data["strat"], f, combo), timeout_ms=20000)
    else:
        from props import c05_xh
        return c05_xh.replay(data)
    if r["status"] == "viol":
        return True, r["describe"]
    return False, "status=%s %s" % (r["status"], r.get("reason", ""))


def run(run, only=None):
    run.functions = [{"module": "pysmt/substituter.py", "what": "MGSubstituter/MSSubstituter.substitute, "
                      "FunctionInterpretation.interpret, quantifier handling in _push_with_children_to_stack",
                      "sha1": core.src_sha("pysmt/substituter.py", "pysmt/walkers/identitydag.py", "pysmt/walkers/dag.py")}]
    run.bounds = {"formulas": "C01 grammar level 1 (all operators over leaves) + a stride of level 2 + nested/shadowing "
                              "quantifier shapes + Boolean skeletons with quantifiers",
                  "maps": "1-3 symbol keys; values: other symbol, 2 constants, terms mentioning the key itself / the "
                          "other symbol (depth 1); swaps; capture-creating maps excluded as the property states",
                  "function interpretations": "17 formulas x all combinations of 2-4 bodies per function symbol "
                                              "(incl. formal parameters named like global symbols), both strategies",
                  "interpretations": "all (z3)"}
    run.outside = ["maps with more than 3 keys", "replacement terms deeper than 1"]
    run.assumptions = ["z3.substitute implements capture-free simultaneous substitution on z3 terms"]
    for fam in ("lemma", "funint"):
        if only and fam not in only:
            continue
        tv.run_family(run, "c05-" + fam, run.tier)
    if not only or "xh-order" in only:
        try:
            from props import c05_xh
        except ImportError:
            c05_xh = None
        if c05_xh is not None:
            c05_xh.run(run)
    run.extra["programs"] = run.evaluations
