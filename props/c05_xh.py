"""C05 xh-order: term-keyed substitution maps.  A symbolic bit mask selects which sub-terms of a formula are
keys (values: fresh symbols of the key's type); the result of the real MGS / MSS substituter must be the
very object given by the independent recursive definition in engine/ref/refsubst.py.  The claim is
structural; CrossHair/z3 contribute exhaustiveness over the mask x strategy space (one condition per formula).
"""
from crosshair.tracers import NoTracing

from engine.xh.model import new_env
from engine.ref import refsubst

PARAMS = {}


def formulas(env):
    from pysmt import typing as T
    m = env.formula_manager
    tm = env.type_manager
    a, b, c = [m.Symbol(n, T.BOOL) for n in "abc"]
    x, y, z = [m.Symbol(n, T.INT) for n in "xyz"]
    f = m.Symbol("f", tm.FunctionType(T.INT, [T.INT]))
    three, four, zero = m.Int(3), m.Int(4), m.Int(0)
    xy = m.Plus(x, y)
    F = lambda t: m.Function(f, [t])
    out = []
    # 0: the docstring example of the Substituter class
    ab = m.And(a, b)
    out.append((ab, [a, b, ab, m.And(c, b)]))
    # 1: key mixing a bound and a free variable, ground key, whole quantifier as key
    q1 = m.ForAll([x], m.LT(zero, xy))
    f1 = m.And(m.LT(zero, xy), q1, m.LT(three, z))
    out.append((f1, [xy, x, y, three, q1, m.LT(zero, xy)]))
    # 2: nested, shadowing multi-variable binders
    q2 = m.Exists([x, y], m.And(m.LT(x, z), m.ForAll([x], m.LT(m.Plus(x, z), y))))
    f2 = m.Or(q2, m.LT(m.Plus(x, z), y))
    out.append((f2, [m.Plus(x, z), m.LT(x, z), z, y, x, q2]))
    # 3: ground keys under binders, overlapping keys
    f3 = m.ForAll([x], m.Implies(m.LT(three, x), m.LT(m.Plus(three, four), m.Plus(x, four))))
    out.append((f3, [three, four, m.Plus(three, four), m.LT(three, x), x, m.Plus(x, four)]))
    # 4: function applications, keys inside arguments
    f4 = m.Equals(F(F(x)), m.Plus(F(y), F(m.Plus(x, y))))
    out.append((f4, [F(x), F(F(x)), xy, F(y), x, F(xy)]))
    # 5: shared sub-DAGs under negation (literals x and Not(x) both keys)
    na = m.Not(a)
    f5 = m.And(m.Or(a, b), m.Or(na, c), m.Iff(m.Or(a, b), na))
    out.append((f5, [a, na, m.Or(a, b), m.Or(na, c), b, c]))
    # 6: ITE and arithmetic, keys that become equal to other keys after replacement
    f6 = m.Ite(m.LT(x, y), m.Plus(x, y), m.Minus(m.Plus(x, y), z))
    out.append((f6, [m.LT(x, y), xy, m.Minus(xy, z), x, z, f6]))
    # 7: quantifier whose body is a key, binder variable also free outside
    q7 = m.Exists([y], m.Equals(F(y), x))
    f7 = m.And(q7, m.Equals(F(y), x), m.ForAll([x], q7))
    out.append((f7, [m.Equals(F(y), x), F(y), q7, y, x, m.ForAll([x], q7)]))
    return out


def fresh_for(env, k, idx):
    return env.formula_manager.Symbol("new%d" % idx, env.stc.get_type(k))


def order_body(m0, m1, m2, m3, m4, m5, strat, twin):
    from pysmt.substituter import MGSubstituter, MSSubstituter
    env = new_env(dict_model=False)
    with NoTracing():
        f, cands = formulas(env)[PARAMS["fidx"]]
    bits = [m0, m1, m2, m3, m4, m5]
    chosen = []
    for idx in range(len(cands)):
        if bits[idx]:               # the only symbolic branches: which sub-terms are keys, which strategy
            chosen.append(idx)
    mgs = True if strat else False
    # no symbolic value flows below this point: the real substituter runs concretely on this path
    with NoTracing():
        sigma = {cands[idx]: fresh_for(env, cands[idx], idx) for idx in chosen}
        if mgs:
            got = MGSubstituter(env).substitute(f, sigma)
            exp = refsubst.mgs(env.formula_manager, f, sigma)
        else:
            got = MSSubstituter(env).substitute(f, sigma)
            exp = refsubst.mss(env.formula_manager, f, sigma)
        same = got is exp
    if twin:
        return False
    return same


def h_order(m0: bool, m1: bool, m2: bool, m3: bool, m4: bool, m5: bool, strat: bool) -> bool:
    """
    post: _
    """
    return order_body(m0, m1, m2, m3, m4, m5, strat, False)


def h_order_twin(m0: bool, m1: bool, m2: bool, m3: bool, m4: bool, m5: bool, strat: bool) -> bool:
    """
    post: _
    """
    return order_body(m0, m1, m2, m3, m4, m5, strat, True)


NFORMULAS = 8


def run(run):
    from props.c02 import run_xh_family, twin_check
    t = 60.0 if run.tier == "quick" else 180.0
    jobs = [("props.c05_xh", "h_order", t, {"fidx": k, "name": "order/f%d" % k}) for k in range(NFORMULAS)]

    def describe(p, r):
        return "formula #%d, key mask/strategy %r: real substituter result is not the documented replacement" % (p["fidx"], r["args"])
    run_xh_family(run, "xh-order", jobs, describe, lambda p, a: "substitute/order-termkeys/f%d" % p["fidx"], "xh-order")
    twin_check(run, "xh-order", jobs[::3])
    run.bounds["xh-order"] = "8 formulas (quantifiers, shadowing, shared sub-DAGs, function applications) x all 2^6 masks of " \
                             "candidate key sub-terms x {MGS, MSS}"


def replay(data):
    from props.c02 import replay_call
    d = dict(data)
    d["mod"] = "props.c05_xh"
    return replay_call(d)
