"""C13 - detected logic covers the formula; logic ordering and selection are sound.

az-order     : Theory.__le__/__eq__/combine/copy/set_* and Logic.__le__ interpreted from the CURRENT source of
               pysmt/logics.py over symbolic flag vectors (12 z3 Booleans per theory): order axioms and
               upper-bound property as single validity queries over all 2^12 (x 2^12 x 2^12) theories.
az-select    : get_closer_logic / most_generic_logic interpreted from source with a SYMBOLIC subset of the named
               logics (one z3 Boolean per logic): all subsets in one query per target.
az-detect    : TheoryOracle.walk_<op> interpreted from source with symbolic child theories: result covers every
               child and has the operator's own features (inductive step of detection over the formula).
tv-detect    : get_logic end-to-end on the C01 grammar vs an independent feature extraction (concrete, per formula).
"""
import itertools
import time

import z3

from engine import blueprint as bp
from engine import core
from engine.az.interp import Interp, SymObj, GuardedList, Choice, Raised, Unsupported, patch_len_compare, zbool
from engine.ref import refstruct as rs
from engine.tv import driver as tv

LEVEL = "model_checking"

FLAGS = ["arrays", "arrays_const", "bit_vectors", "floating_point", "integer_arithmetic", "real_arithmetic",
         "integer_difference", "real_difference", "linear", "uninterpreted", "custom_type", "strings"]


def L():
    import pysmt.logics as logics
    return logics


def mk_interp():
    lg = L()
    return patch_len_compare(Interp(lg, classes=[lg.Theory, lg.Logic]))


def sym_theory(prefix):
    return SymObj(L().Theory, {f: z3.Bool("%s.%s" % (prefix, f)) for f in FLAGS})


def conc_theory(t):
    return SymObj(L().Theory, {f: bool(getattr(t, f)) for f in FLAGS})


def inv(t):
    f = t.fields
    return z3.And(z3.Implies(zbool(f["integer_difference"]), zbool(f["integer_arithmetic"])),
                  z3.Implies(zbool(f["real_difference"]), zbool(f["real_arithmetic"])),
                  z3.Implies(zbool(f["arrays_const"]), zbool(f["arrays"])))


def same(a, b):
    return z3.And(*[zbool(a.fields[f]) == zbool(b.fields[f]) for f in FLAGS])


def covers(big, small):
    """independent meaning of 'big can express everything small can': plain features are monotone; a theory with
    non-linear / non-difference arithmetic needs the same on the other side."""
    B, S = big.fields, small.fields
    cs = []
    for f in ("arrays", "arrays_const", "bit_vectors", "floating_point", "integer_arithmetic", "real_arithmetic",
              "uninterpreted", "custom_type", "strings"):
        cs.append(z3.Implies(zbool(S[f]), zbool(B[f])))
    cs.append(z3.Implies(z3.Not(zbool(S["linear"])), z3.Not(zbool(B["linear"]))))
    cs.append(z3.Implies(z3.And(zbool(S["integer_arithmetic"]), z3.Not(zbool(S["integer_difference"]))),
                         z3.Not(zbool(B["integer_difference"]))))
    cs.append(z3.Implies(z3.And(zbool(S["real_arithmetic"]), z3.Not(zbool(S["real_difference"]))),
                         z3.Not(zbool(B["real_difference"]))))
    return z3.And(*cs)


def valid(run, family, name, claim, premises, model_vars=None, replay=None, signature=None):
    t0 = time.time()
    s = z3.Solver()
    s.set("timeout", 60000)
    for p in premises:
        s.add(p)
    s.add(z3.Not(claim))
    r = s.check()
    dt = time.time() - t0
    if r == z3.unsat:
        run.ok(family, 1, queries=1, solver_s=dt)
        run.nontrivial.add(family + ":" + name)
        return True, None
    if r == z3.sat:
        return False, s.model()
    run.inconc(family, name, "z3 unknown", queries=1, solver_s=dt)
    return None, None


def model_theory(model, prefix):
    return {f: bool(z3.is_true(model.eval(z3.Bool("%s.%s" % (prefix, f)), model_completion=True))) for f in FLAGS}


# ---- az-order --------------------------------------------------------------------------------------------------------
def check_order(run):
    lg = L()
    I = mk_interp()
    T = lg.Theory
    a, b, c = sym_theory("a"), sym_theory("b"), sym_theory("c")
    fam = "az-order"

    def le(x, y):
        return zbool(I.call_function(T.__le__, [x, y], {}))

    def eq(x, y):
        return zbool(I.call_function(T.__eq__, [x, y], {}))

    def comb(x, y):
        return I.call_function(T.combine, [x, y], {})
    # validate the encoding on concrete inputs: all pairs of named logics vs the real code
    named = sorted(lg.LOGICS, key=lambda x: x.name)
    mism = 0
    for x, y in itertools.product(named, repeat=2):
        cx, cy = conc_theory(x.theory), conc_theory(y.theory)
        enc = I.call_function(T.__le__, [cx, cy], {})
        enc = bool(z3.is_true(z3.simplify(enc))) if z3.is_expr(enc) else bool(enc)
        if enc != (x.theory <= y.theory):
            mism += 1
        ec = I.call_function(T.combine, [cx, cy], {})
        real = x.theory.combine(y.theory)
        for f in FLAGS:
            v = ec.fields[f]
            v = bool(z3.is_true(z3.simplify(v))) if z3.is_expr(v) else bool(v)
            if v != bool(getattr(real, f)):
                mism += 1
    run.extra["encoding_validation"] = {"pairs": len(named) ** 2, "mismatches": mism}
    if mism:
        run.harness_error("AZ encoding of Theory.__le__/combine disagrees with the real code on %d concrete cases" % mism)
        return

    def report(name, model, what, args):
        data = {"kind": "order", "what": what, "theories": {k: model_theory(model, k) for k in args},
                "qf": {k: bool(z3.is_true(model.eval(z3.Bool("qf." + k), model_completion=True))) for k in args}}
        run.violation(fam, name, data, "order/" + what, "%s fails for %s" % (what, data["theories"]), queries=1)

    obligations = [
        ("reflexive", le(a, a), [inv(a)], ["a"]),
        ("antisymmetric", z3.Implies(z3.And(le(a, b), le(b, a)), eq(a, b)), [inv(a), inv(b)], ["a", "b"]),
        ("eq-is-flag-equality", eq(a, b) == same(a, b), [], ["a", "b"]),
        ("transitive", z3.Implies(z3.And(le(a, b), le(b, c)), le(a, c)), [inv(a), inv(b), inv(c)], ["a", "b", "c"]),
    ]
    ab = comb(a, b)
    aa = comb(a, a)
    obligations += [
        ("combine-upper-bound-left", le(a, ab), [inv(a), inv(b)], ["a", "b"]),
        ("combine-upper-bound-right", le(b, ab), [inv(a), inv(b)], ["a", "b"]),
        ("combine-covers-left", covers(ab, a), [inv(a), inv(b)], ["a", "b"]),
        ("combine-covers-right", covers(ab, b), [inv(a), inv(b)], ["a", "b"]),
        ("combine-keeps-invariant", inv(ab), [inv(a), inv(b)], ["a", "b"]),
        ("combine-idempotent", same(aa, a), [inv(a)], ["a"]),
        ("le-implies-covers", z3.Implies(le(a, b), covers(b, a)), [inv(a), inv(b)], ["a", "b"]),
    ]
    cp = I.call_function(T.copy, [a], {})
    obligations.append(("copy-equal", same(cp, a), [inv(a)], ["a"]))
    for setter, kwargs, changed in (("set_lira", {}, {"integer_arithmetic": True, "real_arithmetic": True}),
                                    ("set_linear", {"value": False}, {"linear": False}),
                                    ("set_strings", {}, {"strings": True}),
                                    ("set_arrays", {}, {"arrays": True}),
                                    ("set_arrays_const", {}, {"arrays": True, "arrays_const": True})):
        r = I.call_function(getattr(T, setter), [a], kwargs)
        exp = SymObj(T, dict(a.fields))
        for k, v in changed.items():
            exp.fields[k] = v
        obligations.append((setter + "-result", same(r, exp), [inv(a)], ["a"]))
        obligations.append((setter + "-keeps-invariant", inv(r), [inv(a)], ["a"]))
        obligations.append((setter + "-covers-original", covers(r, a), [inv(a)], ["a"]))
    r = I.call_function(T.set_difference_logic, [a], {"value": False})
    obligations.append(("set_difference_logic(False)-clears", z3.And(z3.Not(zbool(r.fields["integer_difference"])),
                                                                     z3.Not(zbool(r.fields["real_difference"]))), [inv(a)], ["a"]))
    obligations.append(("set_difference_logic(False)-covers", covers(r, a), [inv(a)], ["a"]))
    for name, claim, prem, args in obligations:
        ok, model = valid(run, fam, name, claim, prem)
        if ok is False:
            report(name, model, name, args)
    if I.assert_failures:
        # assertions inside combine must be unreachable
        for k, (cond, txt) in enumerate(I.assert_failures[:6]):
            ok, model = valid(run, fam, "assert-%d" % k, z3.Not(zbool(cond)), [inv(a), inv(b), inv(c)])
            if ok is False:
                report("assert:" + txt, model, "assert-reachable", ["a", "b"])
    # Logic.__le__ : product order of theory <= and quantifier_free >=
    qa, qb, qc = z3.Bool("qf.a"), z3.Bool("qf.b"), z3.Bool("qf.c")
    La = SymObj(lg.Logic, {"name": "A", "quantifier_free": qa, "theory": a})
    Lb = SymObj(lg.Logic, {"name": "B", "quantifier_free": qb, "theory": b})
    Lc = SymObj(lg.Logic, {"name": "C", "quantifier_free": qc, "theory": c})

    def lle(x, y):
        return zbool(I.call_function(lg.Logic.__le__, [x, y], {}))
    for name, claim, prem, args in [
            ("logic-reflexive", lle(La, La), [inv(a)], ["a"]),
            ("logic-antisymmetric", z3.Implies(z3.And(lle(La, Lb), lle(Lb, La)), z3.And(same(a, b), qa == qb)), [inv(a), inv(b)], ["a", "b"]),
            ("logic-transitive", z3.Implies(z3.And(lle(La, Lb), lle(Lb, Lc)), lle(La, Lc)), [inv(a), inv(b), inv(c)], ["a", "b", "c"]),
            ("logic-le-needs-quantifiers", z3.Implies(z3.And(lle(La, Lb), z3.Not(qa)), z3.Not(qb)), [inv(a), inv(b)], ["a", "b"])]:
        ok, model = valid(run, fam, name, claim, prem)
        if ok is False:
            report(name, model, name, args)
    run.sample({"family": fam, "obligation": "transitive", "query": "forall theories a,b,c under the class invariant: a<=b & b<=c -> a<=c",
                "verdict": "unsat (holds for all 2^36 triples)"})


def replay_order(data):
    lg = L()

    def mk(d):
        t = lg.Theory()
        for k, v in d.items():
            setattr(t, k, v)
        return t
    th = {k: mk(v) for k, v in data["theories"].items()}
    a, b, c = th.get("a"), th.get("b"), th.get("c")
    w = data["what"]
    qf = data.get("qf", {})
    flags = lambda t: {f: bool(getattr(t, f)) for f in FLAGS}
    invp = lambda t: (not t.integer_difference or t.integer_arithmetic) and (not t.real_difference or t.real_arithmetic) \
        and (not t.arrays_const or t.arrays)
    lgc = lambda t, q: lg.Logic("L", "", quantifier_free=q, theory=t)
    cov = lambda big, small: (all((not getattr(small, f)) or getattr(big, f) for f in
                                  ("arrays", "arrays_const", "bit_vectors", "floating_point", "integer_arithmetic",
                                   "real_arithmetic", "uninterpreted", "custom_type", "strings"))
                              and (small.linear or not big.linear)
                              and (not (small.integer_arithmetic and not small.integer_difference) or not big.integer_difference)
                              and (not (small.real_arithmetic and not small.real_difference) or not big.real_difference))
    checks = {
        "reflexive": lambda: a <= a,
        "antisymmetric": lambda: not (a <= b and b <= a) or a == b,
        "transitive": lambda: not (a <= b and b <= c) or a <= c,
        "combine-upper-bound-left": lambda: a <= a.combine(b),
        "combine-upper-bound-right": lambda: b <= a.combine(b),
        "combine-covers-left": lambda: cov(a.combine(b), a),
        "combine-covers-right": lambda: cov(a.combine(b), b),
        "combine-idempotent": lambda: a.combine(a) == a,
        "le-implies-covers": lambda: not (a <= b) or cov(b, a),
        "copy-equal": lambda: a.copy() == a and flags(a.copy()) == flags(a),
        "eq-is-flag-equality": lambda: (a == b) == (flags(a) == flags(b)),
        "combine-keeps-invariant": lambda: invp(a.combine(b)),
        "set_difference_logic(False)-clears": lambda: not a.set_difference_logic(False).integer_difference
        and not a.set_difference_logic(False).real_difference,
        "set_difference_logic(False)-covers": lambda: cov(a.set_difference_logic(False), a),
        "logic-reflexive": lambda: lgc(a, qf["a"]) <= lgc(a, qf["a"]),
        "logic-antisymmetric": lambda: not (lgc(a, qf["a"]) <= lgc(b, qf["b"]) and lgc(b, qf["b"]) <= lgc(a, qf["a"]))
        or (flags(a) == flags(b) and qf["a"] == qf["b"]),
        "logic-transitive": lambda: not (lgc(a, qf["a"]) <= lgc(b, qf["b"]) and lgc(b, qf["b"]) <= lgc(c, qf["c"]))
        or lgc(a, qf["a"]) <= lgc(c, qf["c"]),
        "logic-le-needs-quantifiers": lambda: not (lgc(a, qf["a"]) <= lgc(b, qf["b"]) and not qf["a"]) or not qf["b"],
    }
    setters = {"set_lira": ({}, {"integer_arithmetic": True, "real_arithmetic": True}), "set_linear": ({"value": False}, {"linear": False}),
               "set_strings": ({}, {"strings": True}), "set_arrays": ({}, {"arrays": True}),
               "set_arrays_const": ({}, {"arrays": True, "arrays_const": True})}
    for sname, (kw, changed) in setters.items():
        def res(sname=sname, kw=kw):
            return getattr(a, sname)(**kw)

        def expd(changed=changed):
            d = flags(a)
            d.update(changed)
            return d
        checks[sname + "-result"] = lambda res=res, expd=expd: flags(res()) == expd()
        checks[sname + "-keeps-invariant"] = lambda res=res: invp(res())
        checks[sname + "-covers-original"] = lambda res=res: cov(res(), a)
    if w in checks:
        try:
            ok = checks[w]()
        except AssertionError as e:
            return True, "%s: assertion %r on %s" % (w, e, data["theories"])
        return (not ok), "%s on %s -> %s" % (w, data["theories"], ok)
    return False, "no native replay for %s" % w


# ---- az-select ----------------------------------------------------------------------------------------------------------
def flatten(v, pc=True):
    """Choice/Raised structure -> list of (condition, outcome)"""
    from engine.az.interp import z_and, z_not
    if isinstance(v, Choice):
        out = []
        prev = True
        for c, x in v.alts:
            out += flatten(x, z_and(pc, prev, c))
            prev = z_and(prev, z_not(c))
        out += flatten(v.otherwise, z_and(pc, prev))
        return out
    return [(pc, v)]


def check_select(run, tier):
    lg = L()
    fam = "az-select"
    named = sorted(lg.LOGICS, key=lambda x: x.name)
    member = {l: z3.Bool("in.%s" % l.name) for l in named}
    S = GuardedList([(member[l], l) for l in named])
    targets = named if tier == "thorough" else named[::3]
    nq = 0
    for t in targets:
        I = mk_interp()
        try:
            res = I.call_function(lg.get_closer_logic, [S, t], {})
        except Unsupported as e:
            run.inconc(fam, "get_closer_logic/%s" % t.name, "unsupported construct: %s" % e)
            continue
        cands = [l for l in named if t <= l]
        any_cand = z3.Or(*[member[l] for l in cands]) if cands else z3.BoolVal(False)
        claims = []
        for cond, out in flatten(res):
            cz = zbool(cond)
            if isinstance(out, Raised):
                claims.append(z3.Implies(cz, z3.Not(any_cand)))
            else:
                between = [member[s] for s in cands if s <= out and s != out]
                claims.append(z3.Implies(cz, z3.And(member[out], z3.BoolVal(bool(t <= out)),
                                                    z3.Not(z3.Or(*between)) if between else z3.BoolVal(True))))
        # the outcomes must also cover every subset
        claims.append(z3.Or(*[zbool(c) for c, _ in flatten(res)]))
        ok, model = valid(run, fam, "get_closer_logic/%s" % t.name, z3.And(*claims), [])
        nq += 1
        if ok is False:
            subset = [l.name for l in named if z3.is_true(model.eval(member[l], model_completion=True))]
            run.violation(fam, "get_closer_logic/%s" % t.name, {"kind": "closer", "target": t.name, "supported": subset},
                          "select/get_closer_logic", "get_closer_logic(%s, %s) is not a closest supported logic" % (subset, t.name),
                          queries=1)
    # most_generic_logic over all subsets
    I = mk_interp()
    try:
        res = I.call_function(lg.most_generic_logic, [S], {})
        claims = []
        for cond, out in flatten(res):
            cz = zbool(cond)
            maxima = [z3.And(member[l], *[z3.Implies(member[x], z3.BoolVal(bool(x <= l))) for x in named]) for l in named]
            if isinstance(out, Raised):
                claims.append(z3.Implies(cz, z3.Not(z3.PbEq([(m_, 1) for m_ in maxima], 1))))
            else:
                k = named.index(out)
                claims.append(z3.Implies(cz, z3.And(maxima[k], z3.PbEq([(m_, 1) for m_ in maxima], 1))))
        ok, model = valid(run, fam, "most_generic_logic", z3.And(*claims), [])
        if ok is False:
            subset = [l.name for l in named if z3.is_true(model.eval(member[l], model_completion=True))]
            run.violation(fam, "most_generic_logic", {"kind": "generic", "supported": subset}, "select/most_generic_logic",
                          "most_generic_logic(%s) is wrong" % subset, queries=1)
    except Unsupported as e:
        run.inconc(fam, "most_generic_logic", "unsupported construct: %s" % e)
    run.sample({"family": fam, "obligation": "get_closer_logic(S, QF_LIA)", "query": "all 2^%d subsets S of the named logics" % len(named),
                "verdict": "result in S, above the target, nothing of S strictly in between; raises iff no candidate"})
    # get_closer_smtlib_logic / get_closer_pysmt_logic on every named logic (concrete)
    bad = []
    for l in named:
        for fn, pool in ((lg.get_closer_pysmt_logic, lg.PYSMT_LOGICS), (lg.get_closer_smtlib_logic, lg.SMTLIB2_LOGICS)):
            try:
                r = fn(l)
            except lg.NoLogicAvailableError if hasattr(lg, "NoLogicAvailableError") else Exception:
                if any(l <= s for s in pool):
                    bad.append((fn.__name__, l.name, "raises although a candidate exists"))
                continue
            if r not in pool or not (l <= r):
                if fn is lg.get_closer_smtlib_logic and l in (lg.QF_BOOL, lg.BOOL) and l <= r:
                    continue
                bad.append((fn.__name__, l.name, "returned %s" % r))
    for b in bad[:5]:
        run.violation(fam, "named/%s/%s" % (b[0], b[1]), {"kind": "named", "fn": b[0], "logic": b[1]}, "select/named/%s" % b[0],
                      "%s(%s): %s" % b)
    if not bad:
        run.ok(fam, 2 * len(named))


def replay_select(data):
    lg = L()
    by = {l.name: l for l in lg.LOGICS}
    if data["kind"] == "closer":
        S = [by[n] for n in data["supported"]]
        t = by[data["target"]]
        cands = [s for s in S if t <= s]
        try:
            r = lg.get_closer_logic(S, t)
        except Exception as e:
            return (len(cands) > 0), "raises %r with candidates %s" % (e, [c.name for c in cands])
        ok = r in S and t <= r and not any(s <= r and s != r for s in cands)
        return (not ok), "get_closer_logic -> %s" % r
    if data["kind"] == "generic":
        S = [by[n] for n in data["supported"]]
        maxima = [l for l in S if all(x <= l for x in S)]
        try:
            r = lg.most_generic_logic(S)
        except Exception as e:
            return (len(maxima) == 1), "raises %r, maxima %s" % (e, maxima)
        return (not (len(maxima) == 1 and r is maxima[0])), "returned %s maxima %s" % (r, maxima)
    if data["kind"] == "named":
        l = by[data["logic"]]
        fn = getattr(lg, data["fn"])
        pool = lg.PYSMT_LOGICS if "pysmt" in data["fn"] else lg.SMTLIB2_LOGICS
        try:
            r = fn(l)
        except Exception as e:
            return any(l <= s for s in pool), "raises %r" % (e,)
        return (r not in pool or not (l <= r)), "returned %s" % r
    return False, "?"


# ---- az-detect: one bottom-up step of TheoryOracle with SYMBOLIC child theories ----------------------------------------------
def type_flags(ty):
    """flags a term of this sort must already carry (independent of pySMT's _theory_from_type)"""
    out = set()
    if ty.is_int_type():
        out.add("integer_arithmetic")
    elif ty.is_real_type():
        out.add("real_arithmetic")
    elif ty.is_bv_type():
        out.add("bit_vectors")
    elif ty.is_string_type():
        out.add("strings")
    elif ty.is_array_type():
        out.add("arrays")
        out |= type_flags(ty.index_type) | type_flags(ty.elem_type)
    elif ty.is_function_type():
        out.add("uninterpreted")
    elif ty.is_custom_type():
        out.add("custom_type")
        for a in (getattr(ty, "args", None) or ()):
            out |= type_flags(a)        # a sort argument must exist in the logic too: (Lst Int) needs Int
    return out


def detect_cases(env):
    """(name, node, own feature requirements) - node built over fresh symbols of the right sorts"""
    from pysmt import typing as T
    m = env.formula_manager
    tm = env.type_manager
    a, b = m.Symbol("a", T.BOOL), m.Symbol("b", T.BOOL)
    i, j = m.Symbol("i", T.INT), m.Symbol("j", T.INT)
    r, s = m.Symbol("r", T.REAL), m.Symbol("s", T.REAL)
    u, v = m.Symbol("u", T.STRING), m.Symbol("v", T.STRING)
    x, y = m.Symbol("x", tm.BVType(4)), m.Symbol("y", tm.BVType(4))
    arr = m.Symbol("arr", tm.ArrayType(T.INT, tm.BVType(4)))
    U = tm.Type("U", 0)
    fu = m.Symbol("fu", tm.FunctionType(U, [T.INT]))
    fb = m.Symbol("fb", tm.FunctionType(T.BOOL, [T.REAL, T.REAL]))
    nd = lambda t: ["int_nondiff"] if t == "I" else ["real_nondiff"]
    return [
        ("and", m.And(a, b), []), ("not", m.Not(a), []), ("iff", m.Iff(a, b), []), ("ite", m.Ite(a, i, j), []),
        ("lt-int", m.LT(i, j), []), ("le-real", m.LE(r, s), []), ("equals-bv", m.Equals(x, y), []), ("minus", m.Minus(i, j), []),
        ("plus-int", m.Plus(i, j), nd("I")), ("plus-real", m.Plus(r, s, r), nd("R")),
        ("times-const", m.Times(i, m.Int(2)), nd("I")), ("times-nonlinear", m.Times(i, j), nd("I") + ["nonlinear"]),
        ("times3-nonlinear", m.Times(m.Int(2), i, j), nd("I") + ["nonlinear"]), ("times-real", m.Times(r, s), nd("R") + ["nonlinear"]),
        ("div-const", m.Div(i, m.Int(2)), nd("I")), ("div-var", m.Div(i, j), nd("I") + ["nonlinear"]),
        ("div-const-by-var", m.Div(m.Int(1), j), nd("I") + ["nonlinear"]), ("div-real", m.Div(r, s), nd("R") + ["nonlinear"]),
        ("pow", m.Pow(r, m.Real(2)), ["nonlinear"]), ("toreal", m.ToReal(i), ["integer_arithmetic", "real_arithmetic"]),
        ("bvadd", m.BVAdd(x, y), []), ("bvult", m.BVULT(x, y), []), ("bvextract", m.BVExtract(x, 1, 2), []),
        ("bv2nat", m.BVToNatural(x), ["integer_arithmetic"]),
        ("strlen", m.StrLength(u), ["integer_arithmetic", "strings"]), ("strindexof", m.StrIndexOf(u, v, i), ["integer_arithmetic", "strings"]),
        ("strtoint", m.StrToInt(u), ["integer_arithmetic", "strings"]), ("inttostr", m.IntToStr(i), ["strings"]),
        ("strconcat", m.StrConcat(u, v), ["strings"]), ("strcontains", m.StrContains(u, v), ["strings"]),
        ("strcharat", m.StrCharAt(u, i), ["strings"]), ("strsubstr", m.StrSubstr(u, i, j), ["strings"]),
        ("select", m.Select(arr, i), []), ("store", m.Store(arr, i, x), []),
        ("arrayvalue", m.Array(T.INT, x, {m.Int(1): y}), ["arrays", "arrays_const", "integer_arithmetic"]),
        ("arrayvalue-bvidx", m.Array(tm.BVType(4), i), ["arrays", "arrays_const", "bit_vectors"]),
        ("function-custom", m.Function(fu, [i]), ["uninterpreted", "custom_type"]),
        ("function-bool", m.Function(fb, [r, s]), ["uninterpreted"]),
        ("symbol-param-sort", m.Equals(m.Symbol("pl", tm.Type("Lst", 1)(T.INT)), m.Symbol("pl2", tm.Type("Lst", 1)(T.INT))), []),
        ("forall-bv", m.ForAll([x], a), ["bit_vectors"]), ("exists-int-real", m.Exists([i, r], a), ["integer_arithmetic", "real_arithmetic"]),
    ]


MUST_BE_CONSTANT = {"pow": (1,)}      # FormulaManager.Pow rejects a non-constant exponent


def check_detect_step(run):
    import pysmt.oracles as O
    from pysmt.environment import pop_env
    lg = L()
    fam = "az-detect"
    env = tv.fresh_env()
    try:
        oracle = env.theoryo
        for name, node, own in detect_cases(env):
            I = patch_len_compare(Interp(O, classes=[lg.Theory, lg.Logic]))
            kids = [sym_theory("c%d" % k) for k in range(len(node.args()))]
            prem = []
            for k, (th, arg) in enumerate(zip(kids, node.args())):
                prem.append(inv(th))
                for fl in type_flags(arg.get_type()):
                    prem.append(zbool(th.fields[fl]))
                if k in MUST_BE_CONSTANT.get(name, ()):
                    # the constructor only accepts a constant node here: its theory is that of a constant of the sort
                    tf = type_flags(arg.get_type())
                    for fl in FLAGS:
                        want = (fl in tf) or fl == "linear" or (fl == "integer_difference" and "integer_arithmetic" in tf) \
                            or (fl == "real_difference" and "real_arithmetic" in tf)
                        prem.append(zbool(th.fields[fl]) == want)
            fn = oracle.functions[node.node_type()]
            try:
                res = I.call_function(fn.__func__, [oracle, node, kids], {})
            except Unsupported as e:
                run.inconc(fam, name, "unsupported construct in TheoryOracle: %s" % e)
                continue
            if not isinstance(res, SymObj):
                run.inconc(fam, name, "result is not a theory object: %r" % (res,))
                continue
            claims = [covers(res, th) for th in kids] + [inv(res)]
            R = res.fields
            for o in own:
                if o == "nonlinear":
                    claims.append(z3.Not(zbool(R["linear"])))
                elif o == "int_nondiff":
                    claims.append(z3.Not(zbool(R["integer_difference"])))
                elif o == "real_nondiff":
                    claims.append(z3.Not(zbool(R["real_difference"])))
                else:
                    claims.append(zbool(R[o]))
            # the step must not mutate the (memoised) child theories it was given
            for k, th in enumerate(kids):
                orig = sym_theory("c%d" % k)
                claims.append(same(th, orig))
            for cond, txt in I.assert_failures:
                claims.append(z3.Not(zbool(cond)))
            ok, model = valid(run, fam, name, z3.And(*claims), prem)
            if ok is False:
                data = {"kind": "detect-step", "case": name, "children": {"c%d" % k: model_theory(model, "c%d" % k) for k in range(len(kids))}}
                run.violation(fam, name, data, "detect-step/" + name,
                              "TheoryOracle step for %s with child theories %s does not cover the children / lacks %s / mutates its "
                              "arguments" % (node.serialize(), data["children"], own), queries=1)
        run.sample({"family": fam, "obligation": "times-nonlinear", "query": "for all child theories (2^24): result covers both children, "
                    "is non-linear and non-difference, children not mutated", "verdict": "unsat"})
    finally:
        pop_env()


def replay_detect_step(data):
    """run the real callback on concrete child theories"""
    lg = L()
    env = tv.fresh_env()
    cases = {n: (node, own) for n, node, own in detect_cases(env)}
    node, own = cases[data["case"]]

    def mk(d):
        t = lg.Theory()
        for k, v in d.items():
            setattr(t, k, v)
        return t
    kids = [mk(data["children"]["c%d" % k]) for k in range(len(node.args()))]
    before = [str(k) for k in kids]
    try:
        res = env.theoryo.functions[node.node_type()](node, args=kids)
    except AssertionError as e:
        return True, "assertion %r in the oracle step" % (e,)
    bad = []
    for kd in kids:
        for f in ("arrays", "arrays_const", "bit_vectors", "integer_arithmetic", "real_arithmetic", "uninterpreted", "custom_type", "strings"):
            if getattr(kd, f) and not getattr(res, f):
                bad.append("child flag %s lost" % f)
        if not kd.linear and res.linear:
            bad.append("non-linearity lost")
        if kd.integer_arithmetic and not kd.integer_difference and res.integer_difference:
            bad.append("int non-difference lost")
        if kd.real_arithmetic and not kd.real_difference and res.real_difference:
            bad.append("real non-difference lost")
    for o in own:
        if o == "nonlinear" and res.linear:
            bad.append("result is linear")
        elif o == "int_nondiff" and res.integer_difference:
            bad.append("result is integer difference logic")
        elif o == "real_nondiff" and res.real_difference:
            bad.append("result is real difference logic")
        elif o not in ("nonlinear", "int_nondiff", "real_nondiff") and not getattr(res, o):
            bad.append("result lacks %s" % o)
    if [str(k) for k in kids] != before:
        bad.append("child theory objects were mutated")
    return bool(bad), "; ".join(bad) or "ok"


# ---- tv-detect: get_logic end to end vs independent feature extraction ---------------------------------------------------
def features(f):
    """independent feature extraction -> dict of required flags"""
    from pysmt import operators as op
    req = {k: False for k in ("arrays", "arrays_const", "bit_vectors", "integer_arithmetic", "real_arithmetic",
                              "uninterpreted", "custom_type", "strings", "nonlinear", "int_nondiff", "real_nondiff", "quantifiers")}

    def ty(t):
        if t.is_int_type():
            req["integer_arithmetic"] = True
        elif t.is_real_type():
            req["real_arithmetic"] = True
        elif t.is_bv_type():
            req["bit_vectors"] = True
        elif t.is_string_type():
            req["strings"] = True
        elif t.is_array_type():
            req["arrays"] = True
            ty(t.index_type)
            ty(t.elem_type)
        elif t.is_function_type():
            req["uninterpreted"] = True
            for p in t.param_types:
                ty(p)
            ty(t.return_type)
        elif t.is_custom_type():
            req["custom_type"] = True
            for a in (getattr(t, "args", None) or ()):
                ty(a)
    for t in rs.subterms(f):
        nt = t.node_type()
        if nt == op.SYMBOL:
            ty(t.symbol_type())
        elif nt in (op.FORALL, op.EXISTS):
            req["quantifiers"] = True
            for v in t.quantifier_vars():
                ty(v.symbol_type())
        elif nt == op.FUNCTION:
            ty(t.function_name().symbol_type())
        elif nt == op.INT_CONSTANT:
            req["integer_arithmetic"] = True
        elif nt == op.REAL_CONSTANT:
            req["real_arithmetic"] = True
        elif nt == op.BV_CONSTANT:
            req["bit_vectors"] = True
        elif nt == op.STR_CONSTANT:
            req["strings"] = True
        elif nt == op.ARRAY_VALUE:
            req["arrays"] = True
            req["arrays_const"] = True
            ty(t.array_value_index_type())
        elif nt in (op.STR_LENGTH, op.STR_INDEXOF, op.STR_TO_INT, op.BV_TONATURAL):
            req["integer_arithmetic"] = True
        elif nt == op.TOREAL:
            req["integer_arithmetic"] = True
            req["real_arithmetic"] = True
        if nt not in (op.SYMBOL, op.FORALL, op.EXISTS, op.POW):
            # (POW excluded: pySMT types every power as Real, also Int ^ Int, which solvers treat as integer arithmetic)
            # the sort of every term that occurs must be enabled (a string produced from an integer, a bit-vector ITE, ...)
            ty(t.get_type())
        if nt in (op.PLUS, op.TIMES, op.DIV, op.POW):
            isint = t.arg(0).get_type().is_int_type()
            # sums, products and quotients are not difference-logic atoms
            if nt != op.POW or True:
                req["int_nondiff" if isint else "real_nondiff"] = True
        if nt == op.TIMES and sum(1 for a in t.args() if rs.free_vars(a)) > 1:
            req["nonlinear"] = True
        if nt == op.DIV and rs.free_vars(t.arg(1)):
            req["nonlinear"] = True
        if nt == op.POW and rs.free_vars(t.arg(0)):
            req["nonlinear"] = True
    return req


def gen_detect(env, tier):
    from engine.tv.grammar import Grammar, dedup
    g = Grammar(env, widths=(2,) if tier == "quick" else (1, 4))
    l1 = dedup(g.level1())
    l2 = dedup(g.level2(l1))
    forms = [t for _, t in l1 if env.stc.get_type(t).is_bool_type()]
    forms += [t for _, t in l2 if env.stc.get_type(t).is_bool_type()][::(5 if tier == "quick" else 1)]
    m = g.m
    # element sorts reachable only through an array sort / custom sorts / quantifier-only bit-vectors
    bv8 = env.type_manager.BVType(8)
    from pysmt import typing as T
    U = env.type_manager.Type("U", 0)
    a1 = m.Symbol("ab1", env.type_manager.ArrayType(T.INT, bv8))
    a2 = m.Symbol("ab2", env.type_manager.ArrayType(T.INT, bv8))
    a3 = m.Symbol("ar3", env.type_manager.ArrayType(bv8, T.REAL))
    a4 = m.Symbol("au4", env.type_manager.ArrayType(T.INT, U))
    a5 = m.Symbol("aa5", env.type_manager.ArrayType(T.INT, env.type_manager.ArrayType(T.INT, bv8)))
    i, j = g.sym[g.I]
    q = m.Symbol("qv", bv8)
    x, y, z = m.Symbol("nx", T.INT), m.Symbol("ny", T.INT), m.Symbol("nz", T.INT)
    r, s = g.sym[g.R]
    forms += [m.Equals(m.Select(a1, i), m.Select(a2, j)), m.Equals(a3, a3), m.Equals(m.Select(a4, i), m.Select(a4, j)),
              m.Equals(m.Select(a5, i), m.Select(a5, j)), m.Equals(a1, m.Store(a2, i, m.Select(a1, j))),
              m.ForAll([q], m.Equals(q, q)), m.Exists([q], m.BVULT(q, q)),
              m.Equals(m.Times(m.Int(2), x, y), z), m.Equals(m.Times(x, m.Int(3), y), z), m.LT(m.Times(m.Int(-1), x, x), z),
              m.Equals(m.Times(x, m.Int(2), y, z), z), m.LT(m.Times(m.Real(2), r, s), r), m.LT(m.Times(x, y, z), z),
              m.Equals(m.Times(m.Int(5), x, m.Int(5)), z), m.LE(m.Div(x, m.Int(2)), y), m.LE(m.Div(x, y), z),
              m.Equals(m.IntToStr(x), g.sym[g.S][0]), m.LT(m.StrToInt(g.sym[g.S][0]), x),
              # a string that exists only as the image of an integer; arithmetic hidden below an Int-valued string/BV operator
              m.Equals(m.StrLength(m.IntToStr(x)), y), m.StrContains(m.IntToStr(x), m.IntToStr(y)),
              m.Equals(m.StrLength(m.IntToStr(m.Plus(x, y, z))), y),
              m.Equals(m.StrLength(m.Ite(m.LT(m.Plus(x, y, z), x), g.sym[g.S][0], g.sym[g.S][1])), y),
              m.Equals(m.StrIndexOf(g.sym[g.S][0], g.sym[g.S][1], m.Times(x, y)), y),
              m.Equals(m.BVToNatural(m.Ite(m.LT(m.Plus(x, y, z), x), q, q)), y),
              m.Equals(m.BVToNatural(m.Ite(m.LT(m.Times(x, y), x), q, m.BVNot(q))), y)]
    # sorts that occur only as the argument of a sort constructor
    Lst, Pair = env.type_manager.Type("Lst", 1), env.type_manager.Type("Pair", 2)
    for k, sty in enumerate([Lst(T.INT), Lst(bv8), Pair(T.REAL, U), Lst(Lst(T.STRING)), env.type_manager.ArrayType(T.INT, Lst(bv8))]):
        forms.append(m.Equals(m.Symbol("ps%d" % k, sty), m.Symbol("pt%d" % k, sty)))
        forms.append(m.ForAll([m.Symbol("pq%d" % k, T.BOOL)], m.Equals(m.Symbol("ps%d" % k, sty), m.Symbol("pt%d" % k, sty))))
    return forms


def check_detect(env, f):
    from pysmt.oracles import get_logic
    name = "detect"
    req = features(f)
    rp = {"kind": "detect", "formula": bp.to_bp(f)}
    try:
        lg = get_logic(f, env)
    except Exception as e:
        if type(e).__name__ == "NoLogicAvailableError":
            return {"name": name, "status": "viol", "signature": "detect/raises:NoLogicAvailableError",
                    "describe": "get_logic(%s) raises %r" % (f.serialize()[:200], e), "replay": rp}
        return {"name": name, "status": "viol", "signature": "detect/raises:%s" % type(e).__name__,
                "describe": "get_logic(%s) raises %r" % (f.serialize()[:200], e), "replay": rp}
    th = lg.theory
    missing = []
    for k in ("arrays", "arrays_const", "bit_vectors", "integer_arithmetic", "real_arithmetic", "uninterpreted",
              "custom_type", "strings"):
        if req[k] and not getattr(th, k):
            missing.append(k)
    if req["nonlinear"] and th.linear:
        missing.append("non-linear")
    if req["int_nondiff"] and th.integer_difference:
        missing.append("non-difference-int")
    if req["real_nondiff"] and th.real_difference:
        missing.append("non-difference-real")
    if req["quantifiers"] and lg.quantifier_free:
        missing.append("quantifiers")
    if missing:
        return {"name": name, "status": "viol", "signature": "detect/missing:" + "+".join(missing),
                "describe": "get_logic(%s) = %s does not enable %s" % (f.serialize()[:200], lg, missing), "replay": rp}
    return {"name": name, "status": "ok", "nontrivial": True,
            "sample": {"formula": f.serialize()[:100], "logic": str(lg), "required": [k for k, v in req.items() if v]}}


tv.register("tv-detect", gen_detect, check_detect)


def replay(data):
    k = data.get("kind")
    if k == "order":
        return replay_order(data)
    if k in ("closer", "generic", "named"):
        return replay_select(data)
    if k == "detect-step":
        return replay_detect_step(data)
    if k == "detect":
        env = tv.fresh_env()
        f = bp.from_bp(data["formula"], env)
        r = check_detect(env, f)
        if r["status"] == "viol":
            return True, r["describe"]
        return False, "ok"
    return False, "unknown replay kind"


def run(run, only=None):
    run.functions = [{"module": "pysmt/logics.py, pysmt/oracles.py",
                      "what": "Theory.__init__/copy/set_*/combine/__eq__/__le__, Logic.__le__, get_closer_logic, "
                              "most_generic_logic (AST -> z3); TheoryOracle + get_logic (end to end)",
                      "sha1": core.src_sha("pysmt/logics.py", "pysmt/oracles.py")}]
    run.bounds = {"theories": "all 2^12 flag vectors (per argument) under the class invariant", "logic subsets": "all subsets of "
                  "the named logics (one Boolean per logic)", "targets": "every named logic (thorough) / every third (quick)",
                  "detection": "Boolean instances of the C01 grammar + sorts reachable only through array/function sorts, "
                               "n-ary products with constants, quantifier-only bit-vectors"}
    run.outside = ["floating-point flag (no FP terms in pySMT)", "user-registered logics", "Factory solver selection"]
    run.assumptions = ["class invariant of Theory: *_difference => *_arithmetic, arrays_const => arrays",
                       "AZ interpreter validated against the real code on all pairs of named logics each run"]
    try:
        if not only or "order" in only:
            check_order(run)
        if not only or "select" in only:
            check_select(run, run.tier)
        if not only or "detect-step" in only:
            check_detect_step(run)
    except Unsupported as e:
        run.inconc("az", "interpreter", "unsupported construct in pysmt/logics.py: %s" % e)
    if not only or "detect" in only:
        tv.run_family(run, "tv-detect", run.tier)
    run.extra["states"] = 2 ** 12
    run.extra["transitions"] = run.queries
