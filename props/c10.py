"""C10 - normal-form rewriters and Boolean QE preserve equivalence (engine TV)."""
import itertools

from pysmt import operators as op
from pysmt import typing as T

from engine import blueprint as bp
from engine import core
from engine.ref import refstruct as rs
from engine.ref.tr_z3 import Z3Tr, Untranslatable
from engine.tv import driver as tv
from engine.tv.boolgrammar import BoolGrammar

LEVEL = "translation_validation"

BOOL_CONN = (op.AND, op.OR, op.NOT, op.IMPLIES, op.IFF)


# ---- shape recognisers (independent recursive definitions) ----------------------------------------------
def is_bool_ite(f):
    return f.node_type() == op.ITE and f.arg(1).get_type().is_bool_type()


def is_atom(f):
    nt = f.node_type()
    return not (nt in BOOL_CONN or nt in (op.FORALL, op.EXISTS) or is_bool_ite(f))


def shape_nnf(f):
    """negations only on atoms; no implies/iff/Boolean-ite"""
    for t in rs.subterms(f):
        nt = t.node_type()
        if nt in (op.IMPLIES, op.IFF) or is_bool_ite(t):
            return "contains %s" % op.op_to_str(nt)
        if nt == op.NOT and not is_atom(t.arg(0)):
            return "negation over %s" % op.op_to_str(t.arg(0).node_type())
    return None


def shape_prenex(f):
    m = f
    while m.node_type() in (op.FORALL, op.EXISTS):
        m = m.arg(0)
    if rs.has_quantifier(m):
        return "matrix contains a quantifier"
    return None


def shape_aig(f):
    for t in rs.subterms(f):
        nt = t.node_type()
        if nt in (op.OR, op.IMPLIES, op.IFF) or is_bool_ite(t):
            return "contains %s" % op.op_to_str(nt)
    return None


def shape_qf(f):
    return "contains a quantifier" if rs.has_quantifier(f) else None


# ---- transformers under test ---------------------------------------------------------------------------
def t_nnf(env, f):
    from pysmt.rewritings import nnf
    return nnf(f, env)


def t_prenex(env, f):
    from pysmt.rewritings import prenex_normal_form
    return prenex_normal_form(f, env)


def t_aig(env, f):
    from pysmt.rewritings import aig
    return aig(f, env)


def t_conj(env, f):
    from pysmt.rewritings import conjunctive_partition
    return env.formula_manager.And(list(conjunctive_partition(f)))


def t_disj(env, f):
    from pysmt.rewritings import disjunctive_partition
    return env.formula_manager.Or(list(disjunctive_partition(f)))


def t_shannon(env, f):
    from pysmt.solvers.qelim import ShannonQuantifierEliminator
    return ShannonQuantifierEliminator(env).eliminate_quantifiers(f)


def t_selfsub(env, f):
    from pysmt.solvers.qelim import SelfSubstitutionQuantifierEliminator
    return SelfSubstitutionQuantifierEliminator(env).eliminate_quantifiers(f)


def t_timesdist(env, f):
    from pysmt.rewritings import TimesDistributor
    return TimesDistributor(env).walk(f)


def t_prop_eq(env, f):
    from pysmt.rewritings import propagate_toplevel
    return propagate_toplevel(f, env, do_simplify=False, preserve_equivalence=True)


def t_prop_eq_simpl(env, f):
    from pysmt.rewritings import propagate_toplevel
    return propagate_toplevel(f, env, do_simplify=True, preserve_equivalence=True)


def t_prop_sat(env, f):
    from pysmt.rewritings import propagate_toplevel
    return propagate_toplevel(f, env, do_simplify=False, preserve_equivalence=False)


# the same rewriter OBJECT serves every instance of the family (memo tables, fresh-name counters and renaming maps survive)
_REUSED = {}


def reused(env, key, mk):
    k = (id(env), key)
    if k not in _REUSED or _REUSED[k][0] is not env:
        _REUSED[k] = (env, mk())
    return _REUSED[k][1]


def t_nnf_reused(env, f):
    from pysmt.rewritings import NNFizer
    return reused(env, "nnf", lambda: NNFizer(env)).convert(f)


def t_prenex_reused(env, f):
    from pysmt.rewritings import PrenexNormalizer
    return reused(env, "prenex", lambda: PrenexNormalizer(env)).normalize(f)


def t_aig_reused(env, f):
    from pysmt.rewritings import AIGer
    return reused(env, "aig", lambda: AIGer(env)).convert(f)


def t_shannon_reused(env, f):
    from pysmt.solvers.qelim import ShannonQuantifierEliminator
    return reused(env, "shannon", lambda: ShannonQuantifierEliminator(env)).eliminate_quantifiers(f)


def t_selfsub_reused(env, f):
    from pysmt.solvers.qelim import SelfSubstitutionQuantifierEliminator
    return reused(env, "selfsub", lambda: SelfSubstitutionQuantifierEliminator(env)).eliminate_quantifiers(f)


def t_timesdist_reused(env, f):
    from pysmt.rewritings import TimesDistributor
    return reused(env, "timesdist", lambda: TimesDistributor(env)).walk(f)


TRANSFORMS = {
    "nnf_reused": (t_nnf_reused, shape_nnf, "equiv"),
    "prenex_reused": (t_prenex_reused, shape_prenex, "equiv"),
    "aig_reused": (t_aig_reused, shape_aig, "equiv"),
    "qe_shannon_reused": (t_shannon_reused, shape_qf, "equiv"),
    "qe_selfsub_reused": (t_selfsub_reused, shape_qf, "equiv"),
    "times_distributor_reused": (t_timesdist_reused, None, "equiv"),
    "nnf": (t_nnf, shape_nnf, "equiv"),
    "prenex": (t_prenex, shape_prenex, "equiv"),
    "aig": (t_aig, shape_aig, "equiv"),
    "conj_partition": (t_conj, None, "equiv"),
    "disj_partition": (t_disj, None, "equiv"),
    "qe_shannon": (t_shannon, shape_qf, "equiv"),
    "qe_selfsub": (t_selfsub, shape_qf, "equiv"),
    "times_distributor": (t_timesdist, None, "equiv"),
    "propagate_toplevel": (t_prop_eq, None, "equiv"),
    "propagate_toplevel_simplify": (t_prop_eq_simpl, None, "equiv"),
    "propagate_toplevel_equisat": (t_prop_sat, None, "equisat"),
}


# ---- instance generators ---------------------------------------------------------------------------------
def gen_bool_q(env, tier):
    g = BoolGrammar(env, atoms="mixed", quantifiers=True)
    return g.levels(tier)


def gen_bool_noq(env, tier):
    g = BoolGrammar(env, atoms="mixed", quantifiers=False)
    return g.levels(tier)


def gen_qe(env, tier):
    g = BoolGrammar(env, atoms="mixed", quantifiers=True)
    g.qvars = [[g.a], [g.b], [g.a, g.b], [g.c, g.a]]
    return [f for f in g.levels(tier)]


def gen_qcombo(env, tier):
    """Connectives over 2-3 quantified sub-formulas with multi-variable blocks that partly clash with free
    occurrences and with sibling binders (alpha-renaming bookkeeping of the prenex normalizer)."""
    m = env.formula_manager
    a, b, c, d = [m.Symbol(n, T.BOOL) for n in "abcd"]
    bodies = [m.Iff(a, b), m.Or(a, c), m.And(b, m.Not(c)), m.Implies(a, m.And(b, c)), m.Or(b, d), a, m.Not(b),
              m.Iff(m.Iff(a, b), c)]
    blocks = [[a], [b], [a, b], [b, c], [a, c], [a, b, c]]
    qs = []
    for body in bodies:
        for vs in blocks:
            qs.append(m.ForAll(vs, body))
            qs.append(m.Exists(vs, body))
    qs = BoolGrammar.uniq(qs)
    free = [a, b, c, m.Not(a)]
    out = []
    q2 = qs if tier == "thorough" else qs[::3]
    for x, y in itertools.product(q2, qs[1::2] if tier == "thorough" else qs[1::4]):
        out += [m.And(x, y), m.Or(x, y), m.Implies(x, y), m.Iff(x, y)]
        for fr in free[:2]:
            out += [m.And(fr, x, y), m.Or(x, fr, y), m.Ite(fr, x, y), m.Ite(x, y, fr)]
    q3 = qs[::5] if tier == "thorough" else qs[::11]
    for x, y, z in itertools.product(q3, repeat=3):
        out += [m.And(x, y, z), m.Or(m.And(a, x), m.Not(y), z)]
    # nested blocks re-binding a variable of the enclosing block
    for x in q2:
        for vs in blocks[:4]:
            out += [m.ForAll(vs, m.And(x, a)), m.Exists(vs, m.Or(m.Not(x), b))]
    return BoolGrammar.uniq(out)


def gen_qcombo_small(env, tier):
    return gen_bool_q(env, tier)[::3] + gen_qcombo(env, tier)[::(4 if tier == "quick" else 2)]


def gen_poly(env, tier):
    """polynomial terms over Int and Real to depth 3"""
    m = env.formula_manager
    out = []
    for ty, mk in ((T.INT, m.Int), (T.REAL, m.Real)):
        x, y, z = [m.Symbol("%s%s" % (n, "i" if ty is T.INT else "r"), ty) for n in "xyz"]
        leaves = [x, y, z, mk(1), mk(-2), mk(0)]
        l1 = []
        for a, b in itertools.product(leaves, repeat=2):
            l1 += [m.Plus(a, b), m.Minus(a, b), m.Times(a, b)]
        l1 = BoolGrammar.uniq(l1)
        reps = {}
        for t in l1:
            k = (t.node_type(), tuple(a.is_constant() for a in t.args()), t.arg(0) is t.arg(1))
            reps.setdefault(k, t)
        pool = leaves[:4] + list(reps.values())
        l2 = []
        for a, b in itertools.product(pool, repeat=2):
            l2 += [m.Plus(a, b), m.Minus(a, b), m.Times(a, b)]
        for a, b, c in itertools.product(pool[:8], repeat=3):
            l2 += [m.Times(a, b, c), m.Plus(a, b, c)]
        l2 = BoolGrammar.uniq(l2, exclude=l1)
        terms = l1 + l2
        if tier == "thorough":
            reps2 = {}
            for t in l2:
                k = (t.node_type(), tuple(a.node_type() for a in t.args()))
                reps2.setdefault(k, t)
            pool3 = leaves[:2] + list(reps2.values())
            l3 = []
            for a, b in itertools.product(pool3, repeat=2):
                l3 += [m.Times(a, b), m.Minus(a, b)]
            terms += BoolGrammar.uniq(l3, exclude=terms)
        # wrap some into atoms so that Boolean structure over theory atoms is exercised too
        out += terms
        out += [m.LE(t, mk(0)) for t in terms[::5]]
    return out


def gen_prop(env, tier):
    """conjunctions with top-level equalities among symbols/constants + other atoms"""
    m = env.formula_manager
    i, j, k = [m.Symbol(n, T.INT) for n in "ijk"]
    r, s = m.Symbol("r", T.REAL), m.Symbol("s", T.REAL)
    bv2 = env.type_manager.BVType(2)
    x, y = m.Symbol("x", bv2), m.Symbol("y", bv2)
    a = m.Symbol("a", T.BOOL)
    u, v = m.Symbol("u", T.STRING), m.Symbol("v", T.STRING)
    eqs = []
    ints = [i, j, k, m.Int(0), m.Int(1)]
    for p, q in itertools.product(ints, repeat=2):
        eqs.append(m.Equals(p, q))
    reals = [r, s, m.Real(0), m.Real(1)]
    for p, q in itertools.product(reals, repeat=2):
        eqs.append(m.Equals(p, q))
    bvs = [x, y, m.BV(0, 2), m.BV(3, 2)]
    for p, q in itertools.product(bvs, repeat=2):
        eqs.append(m.Equals(p, q))
    others = [m.LT(i, j), m.LE(m.Plus(i, k), m.Int(3)), a, m.Not(a), m.Equals(m.Plus(i, m.Int(1)), j),
              m.BVULT(x, y), m.LT(r, s), m.Or(m.Equals(i, m.Int(5)), a), m.Not(m.Equals(i, j)),
              m.Equals(u, v), m.Equals(u, m.String("a"))]
    out = []
    for e in eqs:
        out.append(e)
        for o in others:
            out.append(m.And(e, o))
    n2 = eqs if tier == "thorough" else eqs[::2]
    for e1, e2 in itertools.product(n2, repeat=2):
        out.append(m.And(e1, e2))
        out.append(m.And(e1, e2, others[0]))
        out.append(m.And(m.And(e1, others[1]), e2))
    if tier == "thorough":
        for e1, e2, e3 in itertools.product(eqs[:25:2], repeat=3):
            out.append(m.And(e1, e2, e3, others[4]))
    # non-conjunctive tops
    for e in eqs[::3]:
        out.append(m.Or(e, others[0]))
        out.append(m.Not(e))
    return BoolGrammar.uniq(out)


FAMILIES = {
    "nnf": ("nnf", gen_bool_q),
    "prenex": ("prenex", gen_bool_q),
    "prenex_qcombo": ("prenex", gen_qcombo),
    "nnf_qcombo": ("nnf", gen_qcombo),
    "qe_shannon_qcombo": ("qe_shannon", gen_qcombo),
    "qe_selfsub_qcombo": ("qe_selfsub", gen_qcombo),
    "aig": ("aig", gen_bool_q),
    "conj_partition": ("conj_partition", gen_bool_noq),
    "disj_partition": ("disj_partition", gen_bool_noq),
    "qe_shannon": ("qe_shannon", gen_qe),
    "qe_selfsub": ("qe_selfsub", gen_qe),
    "times_distributor": ("times_distributor", gen_poly),
    "propagate_toplevel": ("propagate_toplevel", gen_prop),
    "propagate_toplevel_simplify": ("propagate_toplevel_simplify", gen_prop),
    "propagate_toplevel_equisat": ("propagate_toplevel_equisat", gen_prop),
    "nnf_reused": ("nnf_reused", gen_qcombo_small),
    "prenex_reused": ("prenex_reused", gen_qcombo_small),
    "aig_reused": ("aig_reused", gen_bool_q),
    "qe_shannon_reused": ("qe_shannon_reused", gen_qe),
    "qe_selfsub_reused": ("qe_selfsub_reused", gen_qe),
    "times_distributor_reused": ("times_distributor_reused", gen_poly),
}


def in_fragment(tname, f):
    if tname in ("qe_shannon", "qe_selfsub", "qe_shannon_reused", "qe_selfsub_reused"):
        for t in rs.subterms(f):
            if t.node_type() in (op.FORALL, op.EXISTS):
                if any(not v.symbol_type().is_bool_type() for v in t.quantifier_vars()):
                    return False
    return True


def check_one(tname, env, f, timeout_ms=5000):
    tfn, shape, mode = TRANSFORMS[tname]
    name = tname
    if not in_fragment(tname, f):
        return {"name": name, "status": "ok", "skipped": True}
    try:
        g = tfn(env, f)
    except Exception as e:
        return {"name": name, "status": "viol", "signature": "%s/raises:%s" % (tname, type(e).__name__),
                "describe": "%s(%s) raises %r" % (tname, f.serialize(), e),
                "replay": {"t": tname, "formula": bp.to_bp(f), "expect": "raises"}}
    res = {"name": name, "status": "ok", "nontrivial": g is not f}
    if g.get_type() != f.get_type():
        return {"name": name, "status": "viol", "signature": "%s/type" % tname,
                "describe": "%s(%s) changes type" % (tname, f.serialize()),
                "replay": {"t": tname, "formula": bp.to_bp(f), "expect": "type"}}
    if shape is not None:
        why = shape(g)
        if why:
            return {"name": name, "status": "viol", "signature": "%s/shape:%s" % (tname, why),
                    "describe": "%s(%s) = %s not in advertised shape: %s" % (tname, f.serialize(), g.serialize(), why),
                    "replay": {"t": tname, "formula": bp.to_bp(f), "expect": "shape"}}
    if tname.startswith("qe_"):
        extra = rs.free_vars(g) - rs.free_vars(f)
        if extra:
            return {"name": name, "status": "viol", "signature": "%s/newsymbol" % tname,
                    "describe": "%s(%s) mentions %s" % (tname, f.serialize(), extra),
                    "replay": {"t": tname, "formula": bp.to_bp(f), "expect": "newsymbol"}}
    if g is f:
        res["same"] = True
        return res
    if mode == "equiv":
        v = tv.check_equiv(f, g, timeout_ms)
        res["queried"] = v.queried
        res["t"] = v.t
        if v.status in ("unsat", "same"):
            if v.status == "unsat":
                res["sample"] = {"transform": tname, "input": f.serialize(), "output": g.serialize(), "verdict": "unsat"}
            return res
        if v.status in ("sat", "typechange"):
            return {"name": name, "status": "viol", "signature": "%s/value/%s" % (tname, rs.shape(f)),
                    "queried": True, "t": v.t,
                    "describe": "%s(%s) = %s differs under %r" % (tname, f.serialize(), g.serialize(), v.interp),
                    "replay": {"t": tname, "formula": bp.to_bp(f), "interp": v.interp, "expect": "value"}}
        return {"name": "%s:%s" % (tname, f.serialize()), "status": "inconc", "reason": v.status + " " + v.reason,
                "queried": v.queried, "t": v.t}
    # equisat with model extension: f => g valid ; g => exists K. f valid (K = symbols of f not in g)
    return check_equisat(tname, f, g, res, timeout_ms)


def check_equisat(tname, f, g, res, timeout_ms):
    """preserve_equivalence=False is outside the equivalence claim of C10; the weakest reading any user relies
    on is equisatisfiability: sat(f) <=> sat(g) (two z3 satisfiability queries over all interpretations)."""
    import z3
    tr = Z3Tr()
    try:
        zf, zg = tr.tr(f), tr.tr(g)
    except Untranslatable as e:
        return {"name": tname, "status": "inconc", "reason": str(e)}
    st1, m1, t1 = tv.check_valid(z3.Not(zf), timeout_ms, premises=tr.defined)   # 'sat' <=> f satisfiable
    st2, m2, t2 = tv.check_valid(z3.Not(zg), timeout_ms, premises=tr.defined)
    res["queried"] = True
    res["queries"] = 2
    res["t"] = t1 + t2
    if "unknown" in (st1, st2):
        return {"name": "%s:%s" % (tname, f.serialize()), "status": "inconc", "reason": "unknown %s %s" % (m1, m2),
                "queried": True, "t": t1 + t2}
    if st1 == st2:
        res["sample"] = {"transform": tname, "input": f.serialize(), "output": g.serialize(),
                         "verdict": "both %s" % ("satisfiable" if st1 == "sat" else "unsatisfiable")}
        return res
    return {"name": tname, "status": "viol", "signature": "%s/equisat" % tname, "queried": True, "t": t1 + t2,
            "describe": "%s(%s) = %s : input %s, output %s" % (tname, f.serialize(), g.serialize(),
                                                               "sat" if st1 == "sat" else "unsat",
                                                               "sat" if st2 == "sat" else "unsat"),
            "replay": {"t": tname, "formula": bp.to_bp(f), "expect": "equisat"}}


def make_check(tname):
    def chk(env, f):
        return check_one(tname, env, f)
    return chk


for _fam, (_t, _gen) in FAMILIES.items():
    tv.register("c10-" + _fam, _gen, make_check(_t))


def replay(data):
    env = tv.fresh_env()
    f = bp.from_bp(data["formula"], env)
    r = check_one(data["t"], env, f, timeout_ms=20000)
    if r["status"] == "viol":
        return True, r["describe"]
    return False, "status=%s %s" % (r["status"], r.get("reason", ""))


def run(run, only=None):
    run.functions = [{"module": "pysmt/rewritings.py + pysmt/solvers/qelim.py",
                      "what": "nnf, prenex_normal_form, aig, TimesDistributor.walk, conjunctive/disjunctive_partition, "
                              "propagate_toplevel (3 modes), Shannon and self-substitution QE",
                      "sha1": core.src_sha("pysmt/rewritings.py", "pysmt/solvers/qelim.py")}]
    run.bounds = {"skeletons": "all connectives (not/and/or/implies/iff/Bool-ite, 3-ary and/or, forall/exists over Bool, "
                               "BV(2), Int, pairs; nested+shadowing) over atoms {a, b, i<j, bvult(x,y), p(i)} and "
                               "True/False: level 1 complete, level 2 over leaves + one representative per "
                               "(operator, child classes)%s" % ("; level 3 over representatives of level 2" if run.tier == "thorough" else ""),
                  "polynomials": "plus/minus/times over {x,y,z,1,-2,0} Int and Real to depth %d" % (3 if run.tier == "thorough" else 2),
                  "propagate": "conjunctions of 1-3 equalities over {i,j,k,0,1}/{r,s,0,1}/{x,y,0_2,3_2} with side atoms",
                  "interpretations": "all (z3 validity); Int quantifiers decided by z3's quantifier reasoning, unknown counted"}
    run.outside = ["Boolean depth > %d" % (3 if run.tier == "thorough" else 2), "quantifiers over Real/arrays",
                   "more than 5 atoms", "prenex on quantifiers nested inside theory terms (excluded by the property)"]
    run.assumptions = ["z3 native semantics (tr_z3.py)", "non-empty quantification domains (z3 sorts are non-empty)"]
    for fam in FAMILIES:
        if only and fam not in only:
            continue
        tv.run_family(run, "c10-" + fam, run.tier)
    run.extra["programs"] = run.evaluations
