"""C04 XH harnesses: hash-consing with symbolic constant values / payload integers (CrossHair + dict model).

PARAMS['kind'] selects the obligation:
  int     : Int(a) is Int(b) <=> a == b ; accessors
  bv      : BV(a,w) is BV(b,w) <=> a == b ; SBV(s,w) is BV(s mod 2^w, w) ; BV("#b..") / BV("01..") vs int spelling
  real    : Real(n) is Real((n,1)) is Real(Fraction(n,1)) ; Real((a,b)) is Real((c,d)) <=> a*d == c*b
  string  : String(s) is String(t) <=> s == t
  pair    : two operator applications with symbolic payload integers and child selectors, built in a symbolic order
            around an unrelated construction: identical object <=> equal structure ; accessors return the blueprint
  bvtype  : BVType(w1) == BVType(w2) <=> w1 == w2, equal types hash equal, are interned per environment
"""
from fractions import Fraction

from crosshair.tracers import NoTracing

from engine.xh.model import new_env

PARAMS = {}


def pre(a, b, c, d, s, t, o):
    k = PARAMS["kind"]
    w = PARAMS.get("w", 4)
    if k == "bv":
        return 0 <= a < 2 ** w and 0 <= b < 2 ** w and -(2 ** (w - 1)) <= c < 2 ** (w - 1)
    if k == "real":
        q = PARAMS.get("qbox", 3)
        return -q <= a <= q and 1 <= b <= q and -q <= c <= q and 1 <= d <= q
    if k == "string":
        return len(s) <= PARAMS.get("strlen", 2) and len(t) <= PARAMS.get("strlen", 2)
    if k == "pair":
        return 0 <= a <= 3 and 0 <= b <= 3 and -1 <= c <= w and -1 <= d <= w
    if k == "bvtype":
        return 1 <= a <= 5 and 1 <= b <= 5
    if k == "container":
        return 0 <= a <= 17 and 0 <= b <= 6 and 0 <= c <= 3
    return True


def bits(v, w):
    out = ""
    for i in range(w - 1, -1, -1):
        out += "1" if (v // (2 ** i)) % 2 == 1 else "0"
    return out


def body(a, b, c, d, s, t, o, twin):
    env = new_env()
    m = env.formula_manager
    k = PARAMS["kind"]
    w = PARAMS.get("w", 4)
    if k == "int":
        x, y = m.Int(a), m.Int(b)
        if twin:
            return False
        ok = ((x is y) == (a == b)) and x.constant_value() == a and y.constant_value() == b and x.is_int_constant()
        z = m.Int(a)
        return ok and (z is x) and x.node_type() != m.Real(a).node_type()
    if k == "bv":
        x, y = m.BV(a, w), m.BV(b, w)
        sx = m.SBV(c, w)
        if twin:
            return False
        ok = ((x is y) == (a == b)) and x.constant_value() == a and x.bv_width() == w and x.bv_unsigned_value() == a
        ok = ok and (sx is m.BV(c % (2 ** w), w)) and sx.bv_signed_value() == c
        if PARAMS.get("strings", True):
            ok = ok and (m.BV("#b" + bits(a, w)) is x) and (m.BV(bits(a, w)) is x) and (m.BV(bits(a, w), w) is x)
        other = m.BV(a, w + 1)
        return ok and (other is not x) and other.bv_width() == w + 1
    if k == "real":
        x = m.Real((a, b))
        y = m.Real((c, d))
        if twin:
            return False
        ok = ((x is y) == (a * d == c * b))
        ok = ok and x.constant_value() == Fraction(a, b) and x.is_real_constant()
        n1, n2, n3 = m.Real(a), m.Real((a, 1)), m.Real(Fraction(a, 1))
        ok = ok and (n1 is n2) and (n2 is n3) and (m.Real(Fraction(a, b)) is x)
        return ok and (n1 is not m.Int(a))
    if k == "string":
        x, y = m.String(s), m.String(t)
        if twin:
            return False
        return ((x is y) == (s == t)) and x.constant_value() == s and x.is_string_constant()
    if k == "bvtype":
        t1, t2 = env.type_manager.BVType(a), env.type_manager.BVType(b)
        if twin:
            return False
        ok = ((t1 == t2) == (a == b)) and ((t1 is t2) == (a == b)) and t1.width == a
        if a == b:
            ok = ok and hash(t1) == hash(t2)
        from pysmt.typing import _BVType
        fresh = _BVType(a)
        return ok and fresh == t1 and hash(fresh) == hash(t1)
    if k == "pair":
        return pair_body(env, a, b, c, d, o, twin)
    if k == "container":
        return container_body(env, a, b, c, twin)
    return True


CONTAINER_KINDS = ["list", "tuple", "generator", "iterator", "filter", "dict-keys", "varargs"]


def container_cases(env):
    """(name, constructor taking ONE iterable of the given items, item pool) - every constructor documented as accepting an
    iterable (or *args) of nodes"""
    from pysmt import typing as T
    m = env.formula_manager
    tm = env.type_manager
    B = [m.Symbol("b%d" % i, T.BOOL) for i in range(3)]
    I = [m.Symbol("i%d" % i, T.INT) for i in range(3)]
    V = [m.Symbol("v%d" % i, tm.BVType(2)) for i in range(3)]
    S = [m.Symbol("s%d" % i, T.STRING) for i in range(3)]
    f = m.Symbol("f", tm.FunctionType(T.INT, [T.INT, T.INT, T.INT]))
    f1 = m.Symbol("f1", tm.FunctionType(T.INT, [T.INT]))
    f2 = m.Symbol("f2", tm.FunctionType(T.INT, [T.INT, T.INT]))
    body = m.And(B[0], m.LT(I[0], I[1]))
    cs = [("And", m.And, B, 0), ("Or", m.Or, B, 0), ("Plus", m.Plus, I, 1), ("Times", m.Times, I, 1),
          ("Min", m.Min, I, 1), ("Max", m.Max, I, 1), ("AllDifferent", m.AllDifferent, I, 0), ("ExactlyOne", m.ExactlyOne, B, 0),
          ("AtMostOne", m.AtMostOne, B, 0), ("BVAnd", m.BVAnd, V, 1), ("BVOr", m.BVOr, V, 1), ("BVAdd", m.BVAdd, V, 1),
          ("BVMul", m.BVMul, V, 1), ("BVConcat", m.BVConcat, V, 2), ("StrConcat", m.StrConcat, S, 2),
          ("ForAll", lambda vs: m.ForAll(vs, body), B[:1] + I[:2], 0), ("Exists", lambda vs: m.Exists(vs, body), B[:1] + I[:2], 0),
          ("Function", None, I, 1)]
    return cs, {1: f1, 2: f2, 3: f}


def container_body(env, ci, kind, n, twin):
    """constructor ci applied to its first n items, passed as container kind `kind`: the very object the list call yields"""
    cs, funs = container_cases(env)
    cj = None
    for j in range(len(cs)):
        if ci == j:
            cj = j
    kj = None
    for j in range(len(CONTAINER_KINDS)):
        if kind == j:
            kj = j
    nj = None
    for j in range(4):
        if n == j:
            nj = j
    if cj is None or kj is None or nj is None:
        return True
    with NoTracing():
        name, ctor, pool, minn = cs[cj]
        if nj < minn:
            return True
        items = list(pool[:nj])
        if name == "Function":
            fn = funs[nj]
            m = env.formula_manager
            ctor = lambda xs: m.Function(fn, xs)
        kname = CONTAINER_KINDS[kj]
        if kname == "varargs" and name in ("ForAll", "Exists", "Function"):
            return True
        if name == "Function" and kname not in ("list", "tuple"):
            return True        # documented parameter type is Sequence
        ref = ctor(list(items))
        if twin:
            return False
        if kname == "list":
            arg = list(items)
        elif kname == "tuple":
            arg = tuple(items)
        elif kname == "generator":
            arg = (x for x in items)
        elif kname == "iterator":
            arg = iter(items)
        elif kname == "filter":
            arg = filter(lambda x: True, items)
        elif kname == "dict-keys":
            arg = dict((x, 1) for x in items).keys()
        if kname == "varargs":
            got = ctor(*items)
        else:
            got = ctor(arg)
        ok = got is ref
        if ok and name in ("ForAll", "Exists") and nj > 0:
            ok = tuple(got.quantifier_vars()) == tuple(items)
    return ok


def pair_body(env, a, b, c, d, o, twin):
    """two extract/rotate/extend applications: operator selectors a, b in 0..3, payload ints c, d symbolic"""
    m = env.formula_manager
    w = PARAMS.get("w", 4)
    x = m.Symbol("x", env.type_manager.BVType(w))
    y = m.Symbol("y", env.type_manager.BVType(w))

    def mk(sel, p, arg):
        if sel == 0:
            return m.BVRol(arg, p), ("rol", p)
        if sel == 1:
            return m.BVRor(arg, p), ("ror", p)
        if sel == 2:
            return m.BVZExt(arg, p), ("zext", p)
        return m.BVExtract(arg, p, w - 1), ("extract", p)
    try:
        if o:
            f1, k1 = mk(a, c, x)
            noise = m.BVAdd(x, y)
            f2, k2 = mk(b, d, x)
        else:
            f2, k2 = mk(b, d, x)
            noise = m.BVNot(y)
            f1, k1 = mk(a, c, x)
    except Exception:
        return True       # ill-typed payload: not an instance
    if twin:
        return False
    same_struct = (k1[0] == k2[0]) and (k1[1] == k2[1])
    ok = ((f1 is f2) == same_struct)
    # accessors return the blueprint
    for f, (kind, p) in ((f1, k1), (f2, k2)):
        if kind in ("rol", "ror"):
            ok = ok and f.bv_rotation_step() == p and f.bv_width() == w
        elif kind == "zext":
            ok = ok and f.bv_extend_step() == p and f.bv_width() == w + p
        else:
            ok = ok and f.bv_extract_start() == p and f.bv_extract_end() == w - 1 and f.bv_width() == w - p
        ok = ok and f.arg(0) is x
    return ok


def h_hc(a: int, b: int, c: int, d: int, s: str, t: str, o: bool) -> bool:
    """
    pre: pre(a, b, c, d, s, t, o)
    post: _
    """
    return body(a, b, c, d, s, t, o, False)


def h_hc_twin(a: int, b: int, c: int, d: int, s: str, t: str, o: bool) -> bool:
    """
    pre: pre(a, b, c, d, s, t, o)
    post: _
    """
    return body(a, b, c, d, s, t, o, True)


def jobs(tier):
    t = 60.0 if tier == "quick" else 240.0
    out = [("props.c04_xh", "h_hc", t, {"kind": "int", "name": "hc/int"}),
           ("props.c04_xh", "h_hc", t * 2, {"kind": "real", "qbox": 2 if tier == "quick" else 3, "name": "hc/real"}),
           ("props.c04_xh", "h_hc", t * 2, {"kind": "string", "strlen": 2 if tier == "quick" else 3, "name": "hc/string"}),
           ("props.c04_xh", "h_hc", t * 3, {"kind": "bvtype", "name": "hc/bvtype"})]
    out.append(("props.c04_xh", "h_hc", t * 2, {"kind": "container", "name": "hc/container"}))
    for w in ((1, 2, 4) if tier == "quick" else (1, 2, 3, 4, 5, 6)):
        out.append(("props.c04_xh", "h_hc", t * 2, {"kind": "bv", "w": w, "name": "hc/bv/w%d" % w}))
        out.append(("props.c04_xh", "h_hc", t * 2, {"kind": "pair", "w": w, "name": "hc/pair/w%d" % w}))
    return out
