"""C01 - Simplification preserves type and meaning.

Families:
  tv-l1 / tv-l2 : real Simplifier on grammar instances with free leaves; z3 decides, for ALL
                  interpretations, that input and output have the same value (engine TV).
  xh-fold       : CrossHair on the real constant-folding rules with symbolic payloads (engine XH).
  az-div        : IEEE-754 encoding of the Int division kernel (engine AZ).
"""
from engine import blueprint as bp
from engine import core
from engine.ref import refstruct as rs
from engine.tv import driver as tv
from engine.tv.grammar import Grammar, dedup

LEVEL = "model_checking"

WIDTHS = {"quick": (1, 2, 3), "thorough": (1, 2, 3, 4, 8)}


def gen_l1(env, tier):
    g = Grammar(env, widths=WIDTHS[tier] if tier == "thorough" else (1, 2, 3, 8))
    return dedup(g.level1())


def gen_l2(env, tier):
    g = Grammar(env, widths=(1, 2) if tier == "quick" else (1, 2, 3))
    l1 = dedup(g.level1())
    l2 = dedup(g.level2(l1))
    seen = set(t for _, t in l1)
    l2 = [(n, t) for n, t in l2 if t not in seen]
    if tier == "quick":
        # quick: deterministic stride through the level-2 space (selector bound, stated in evidence)
        l2 = l2[::QUICK_STRIDE]
    return l2


QUICK_STRIDE = 7


def simplify_fresh(env, f):
    return env.simplifier.simplify(f)


def blame(env, f, timeout_ms):
    """Descend to the smallest sub-term whose own simplification is already wrong."""
    cur = f
    for _ in range(8):
        nxt = None
        for a in cur.args():
            try:
                sa = simplify_fresh(env, a)
            except Exception:
                nxt = a
                break
            if sa is a:
                continue
            if sa.get_type() != a.get_type():
                nxt = a
                break
            v = tv.check_equiv(a, sa, timeout_ms)
            if v.status in ("sat", "typechange"):
                nxt = a
                break
        if nxt is None:
            break
        cur = nxt
    try:
        sargs = [simplify_fresh(env, a) for a in cur.args()]
    except Exception:
        sargs = list(cur.args())
    return cur, "simplify/%s(%s)" % (rs.shape(cur), ",".join(rs.shape(a) for a in sargs))


def check_simplify(env, inst, timeout_ms=5000):
    name, f = inst
    res = {"name": name, "status": "ok", "queried": False, "t": 0.0}
    try:
        g = simplify_fresh(env, f)
    except Exception as e:
        culprit, sig = blame(env, f, timeout_ms)
        return {"name": name, "status": "viol", "signature": sig + "/raises:" + type(e).__name__,
                "describe": "simplify(%s) raises %r" % (f.serialize(), e),
                "replay": {"kind": "simplify", "formula": bp.to_bp(culprit), "interp": {}, "expect": "raises"}}
    res["nontrivial"] = g is not f
    if g is f:
        res["same"] = True
        return res
    tf, tg = f.get_type(), g.get_type()
    if tf != tg:
        culprit, sig = blame(env, f, timeout_ms)
        return {"name": name, "status": "viol", "signature": sig + "/type",
                "describe": "simplify(%s) = %s changes type %s -> %s" % (f.serialize(), g.serialize(), tf, tg),
                "replay": {"kind": "simplify", "formula": bp.to_bp(culprit), "interp": {}, "expect": "type"}}
    extra = rs.free_vars(g) - rs.free_vars(f)
    if extra:
        culprit, sig = blame(env, f, timeout_ms)
        return {"name": name, "status": "viol", "signature": sig + "/newsymbol",
                "describe": "simplify(%s) = %s mentions %s" % (f.serialize(), g.serialize(), extra),
                "replay": {"kind": "simplify", "formula": bp.to_bp(culprit), "interp": {}, "expect": "newsymbol"}}
    v = tv.check_equiv(f, g, timeout_ms)
    res["queried"] = v.queried
    res["t"] = v.t
    if v.status in ("unsat", "same"):
        if v.status == "unsat":
            res["sample"] = {"input": f.serialize(), "output": g.serialize(), "verdict": "unsat (equal under all interpretations)"}
        return res
    if v.status == "sat" or v.status == "typechange":
        culprit, sig = blame(env, f, timeout_ms)
        interp = v.interp or {}
        if culprit is not f:
            v2 = tv.check_equiv(culprit, simplify_fresh(env, culprit), timeout_ms)
            interp = v2.interp or {}
        return {"name": name, "status": "viol", "signature": sig, "queried": True, "t": v.t,
                "describe": "simplify(%s) = %s differs under %r" % (f.serialize(), g.serialize(), v.interp),
                "replay": {"kind": "simplify", "formula": bp.to_bp(culprit), "interp": interp, "expect": "value"}}
    return {"name": "%s:%s" % (name, f.serialize()), "status": "inconc", "reason": v.status + " " + v.reason,
            "queried": v.queried, "t": v.t}


def gen_boolnest(env, tier):
    """Boolean connectives nested twice over LITERALS in both polarities (complement / duplicate relations between the
    operands of an inner and an outer connective are what the and/or/implies/iff rewrite rules look at)."""
    import itertools
    from pysmt import typing as T
    m = env.formula_manager
    a, b, c = [m.Symbol(n, T.BOOL) for n in "abc"]
    lits4 = [a, m.Not(a), b, m.Not(b)]
    lits = lits4 + [m.TRUE(), m.FALSE()] + ([c, m.Not(c)] if tier == "thorough" else [])
    ops = [("and", m.And), ("or", m.Or), ("implies", m.Implies), ("iff", m.Iff)]
    out = []
    for (n1, o1), (n2, o2) in itertools.product(ops, repeat=2):
        for x, y, z in itertools.product(lits, repeat=3):
            out.append(("%s(l,%s(l,l))" % (n1, n2), o1(x, o2(y, z))))
            out.append(("%s(%s(l,l),l)" % (n1, n2), o1(o2(x, y), z)))
        for (n3, o3) in ops:
            for w, x, y, z in itertools.product(lits4, repeat=4):
                out.append(("%s(%s(l,l),%s(l,l))" % (n1, n2, n3), o1(o2(w, x), o3(y, z))))
    for (n2, o2) in ops[:2]:
        for w, x, y, z in itertools.product(lits4, repeat=4):
            out.append(("and3", m.And(w, o2(x, y), z)))
            out.append(("or3", m.Or(w, o2(x, y), z)))
            out.append(("ite", m.Ite(w, o2(x, y), z)))
            out.append(("ite2", m.Ite(o2(w, x), y, z)))
            out.append(("not-nested", m.Not(o2(w, m.Not(o2(x, m.And(y, z)))))))
    return dedup(out)


tv.register("tv-boolnest", gen_boolnest, check_simplify)
tv.register("tv-l1", gen_l1, check_simplify)
tv.register("tv-l2", gen_l2, check_simplify)


def replay(data):
    if data.get("kind") == "xh":
        from props.c02 import replay_call
        d = dict(data)
        d["mod"] = "props.xh_fold"
        return replay_call(d)
    env = tv.fresh_env()
    f = bp.from_bp(data["formula"], env)
    try:
        g = env.simplifier.simplify(f)
    except Exception as e:
        if data.get("expect") == "raises":
            return True, "simplify(%s) raises %r" % (f.serialize(), e)
        return False, "raises %r" % (e,)
    if f.get_type() != g.get_type():
        return True, "simplify(%s) = %s : type %s -> %s" % (f.serialize(), g.serialize(), f.get_type(), g.get_type())
    extra = rs.free_vars(g) - rs.free_vars(f)
    if extra:
        return True, "new symbols %s" % (extra,)
    ok, msg = tv.replay_equiv(f, g, data.get("interp"))
    return ok, "simplify(%s) = %s ; %s" % (f.serialize(), g.serialize(), msg)


def xh_fold_family(run):
    """CrossHair on the real rewrite rules: constants AND the values of the opaque symbols are symbolic; the argument
    pattern says which positions are constants ('c'), which a symbol ('x') and which the same symbol again ('s')."""
    from props import c02
    quick = run.tier == "quick"
    t = 40.0 if quick else 200.0
    jobs = []

    def add(opn, pat, **kw):
        p = dict(kw, op=opn, pat=pat, name="fold/%s/%s/w%s" % (opn, pat, kw.get("w", "-")))
        jobs.append(("props.xh_fold", "h_fold", t, p))
    for o in c02.LINEAR_BV:
        ar = len(__import__("props.xh_fold", fromlist=["OPS"]).OPS[o][0])
        for w in ((2, 4) if quick else (1, 2, 3, 4, 8)):
            if ar == 1:
                add(o, "c", w=w, w2=2)
                continue
            pats = ["cc", "cx", "xc", "xs"] if ar == 2 else ["ccc", "cxc", "xcc", "cxs"]
            for pat in pats:
                add(o, pat, w=w, w2=2)
    for o in c02.NONLIN_BV:
        if o == "BVSMod":
            continue
        for w in ((2, 3) if quick else (1, 2, 3, 4)):
            for pat in ("cc", "cx", "xc", "xs"):
                add(o, pat, w=w)
                jobs[-1] = jobs[-1][:2] + (t * 3,) + jobs[-1][3:]      # non-linear kernels need more time per condition
    for o in ("Plus/I", "Minus/I", "Times/I", "LE/I", "LT/I", "Equals/I", "Div/I"):
        for pat in ("cc", "cx", "xc", "xs"):
            add(o, pat)
    for o in ("And", "Or", "Implies", "Iff", "Ite/I", "Ite/B", "Ite/V"):
        ar = 3 if o.startswith("Ite") else 2
        for pat in (["cc", "cx", "xc", "xs"] if ar == 2 else ["ccc", "cxx", "xcc", "xcx", "cxs"]):
            add(o, pat, w=2)
    for o in ("StrConcat", "StrContains", "StrPrefixOf", "StrSuffixOf", "Equals/S"):
        for pat in ("cc", "cx", "xc"):
            add(o, pat, strlen=2)

    def describe(p, r):
        return "simplify on %s pattern %s with payloads/values %r disagrees with the reference evaluator" % (p["op"], p["pat"], r["args"])
    c02.run_xh_family(run, "xh-fold", jobs, describe, lambda p, a: "simplify-fold/%s/%s" % (p["op"], p["pat"]), "xh")
    c02.twin_check(run, "xh-fold", jobs[::13])
    run.bounds["xh-fold"] = ("constant payloads and symbol values symbolic: BV widths 2,4 (quick) / 1-4,8 linear, 2-3 / 1-4 mul/div/rem; "
                             "Int unbounded; strings length <= 2; patterns const/const, const/symbol, symbol/const, same symbol twice")


def run(run, only=None):
    run.functions = [{"module": "pysmt/simplifier.py", "what": "Simplifier.walk_* (all handlers) via env.simplifier.simplify",
                      "sha1": core.src_sha("pysmt/simplifier.py", "pysmt/walkers/dag.py", "pysmt/fnode.py", "pysmt/utils.py")}]
    run.bounds = {"tv-l1": "every operator over all combinations of leaves: 2 symbols + boundary constants per sort; "
                           "BV widths %s" % (WIDTHS[run.tier],),
                  "tv-l2": "every operator over reduced leaves + one representative level-1 term per "
                           "(operator, result sort, argument shape); quick takes every %d-th instance" % QUICK_STRIDE,
                  "interpretations": "all (z3 validity; Int/Real unbounded, BV all 2^w values, UF/arrays arbitrary); "
                                     "interpretations evaluating an Int/Real division by zero excluded"}
    run.outside = ["formula depth > 2 (argued by compositionality: bottom-up rules over simplified children)",
                   "algebraic constants", "BV widths other than the listed ones"]
    run.assumptions = ["z3's native operators are the SMT-LIB semantics (tr_z3.py)",
                       "definedness premise: every Int/Real divisor occurring in input or output is non-zero"]
    fams = ["tv-l1", "tv-l2", "tv-boolnest"]
    run.bounds["tv-boolnest"] = ("and/or/implies/iff nested twice (all three shapes) over the literals a, !a, b, !b, True, False "
                                 "(+ c, !c thorough), 3-ary and/or, ite and negations over them")
    for fam in fams:
        if only and fam not in only:
            continue
        tv.run_family(run, fam, run.tier)
    if not only or "xh-fold" in only:
        xh_fold_family(run)
    run.extra["programs"] = run.evaluations
    run.extra["rule"] = ("instance = grammar formula; non-trivial = simplify returned a different object "
                         "(a solver query was needed unless the translations coincide)")
