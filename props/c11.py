"""C11 - CNF conversion and Ackermannization preserve satisfiability model-by-model (engine TV,
quantified validity queries: the auxiliary symbols are existentially/universally quantified in z3)."""
import itertools

import z3

from pysmt import operators as op
from pysmt import typing as T

from engine import blueprint as bp
from engine import core
from engine.ref import refstruct as rs
from engine.ref.tr_z3 import Z3Tr, Untranslatable
from engine.tv import driver as tv
from engine.tv.boolgrammar import BoolGrammar

LEVEL = "translation_validation"


# ---- form recognisers ------------------------------------------------------------------------------------------
BOOLISH = (op.AND, op.OR, op.NOT, op.IMPLIES, op.IFF, op.FORALL, op.EXISTS)


def is_atom(f):
    if f.node_type() in BOOLISH:
        return False
    if f.node_type() == op.ITE and f.arg(1).get_type().is_bool_type():
        return False
    if f.is_bool_constant():
        return False
    return True


def is_literal(f):
    """atom or negated atom; a bare Boolean constant is tolerated as a degenerate literal (its meaning is
    covered by the semantic queries), a negated constant or any connective is not."""
    if f.node_type() == op.NOT:
        return is_atom(f.arg(0))
    return is_atom(f) or f.is_bool_constant()


def cnf_form(g):
    """conjunction of clauses of literals (True/False alone = empty conjunction / empty clause)."""
    if g.is_bool_constant():
        return None
    conj = g.args() if g.node_type() == op.AND else [g]
    for c in conj:
        lits = c.args() if c.node_type() == op.OR else [c]
        for l in lits:
            if not is_literal(l):
                return "non-literal %s in clause %s" % (l.serialize(), c.serialize())
    return None


def cnf_set_form(s):
    for clause in s:
        for l in clause:
            if not is_literal(l):
                return "non-literal %s" % l.serialize()
    return None


# ---- CNF ---------------------------------------------------------------------------------------------------------------
def do_cnf(kind, env, f, first=None):
    from pysmt import rewritings as rw
    m = env.formula_manager
    if first is not None:
        # the same converter instance has already converted another formula (sharing sub-formulas with this one)
        conv = rw.PolarityCNFizer(env) if kind == "polarity" else rw.CNFizer(env)
        conv.convert(first)
        if kind == "cnf_as_set":
            s = conv.convert(f)
            return m.And([m.Or(list(c)) for c in s]), s
        return conv.convert_as_formula(f), None
    if kind == "cnf":
        return rw.cnf(f, env), None
    if kind == "cnf_as_set":
        s = rw.cnf_as_set(f, env)
        return m.And([m.Or(list(c)) for c in s]), s
    if kind == "polarity":
        return rw.PolarityCNFizer(env).convert_as_formula(f), None
    raise ValueError(kind)


def check_cnf(kind, env, f, timeout_ms=5000, first=None):
    name = kind
    try:
        g, as_set = do_cnf(kind, env, f, first)
    except Exception as e:
        return {"name": name, "status": "viol", "signature": "%s/raises:%s" % (kind, type(e).__name__),
                "describe": "%s(%s) raises %r" % (kind, f.serialize(), e),
                "replay": {"k": kind, "formula": bp.to_bp(f)}}
    why = cnf_set_form(as_set) if as_set is not None else cnf_form(g)
    if why:
        return {"name": name, "status": "viol", "signature": "%s/form" % kind,
                "describe": "%s(%s) = %s : %s" % (kind, f.serialize(), g.serialize(), why),
                "replay": {"k": kind, "formula": bp.to_bp(f)}}
    tr = Z3Tr()
    try:
        zf, zg = tr.tr(f), tr.tr(g)
    except Untranslatable as e:
        return {"name": name, "status": "inconc", "reason": str(e)}
    aux = [s for s in rs.free_vars(g) - rs.free_vars(f)]
    zaux = [tr.symbol(s) for s in aux]
    ext = z3.Exists(zaux, zg) if zaux else zg
    st1, m1, t1 = tv.check_valid(z3.Implies(zf, ext), timeout_ms)
    st2, m2, t2 = tv.check_valid(z3.Implies(zg, zf), timeout_ms)
    res = {"name": name, "status": "ok", "queried": True, "queries": 2, "t": t1 + t2, "nontrivial": len(aux) > 0}
    if st1 == "unsat" and st2 == "unsat":
        res["sample"] = {"kind": kind, "input": f.serialize(), "output": g.serialize(), "aux": [str(a) for a in aux],
                         "verdict": "f => exists aux. cnf ; cnf => f : both valid"}
        return res
    if st1 == "sat" or st2 == "sat":
        which = "model-of-input-does-not-extend" if st1 == "sat" else "model-of-output-falsifies-input"
        return {"name": name, "status": "viol", "signature": "%s/%s" % (kind, which), "queried": True, "t": t1 + t2,
                "describe": "%s(%s) = %s : %s" % (kind, f.serialize(), g.serialize(), which),
                "replay": {"k": kind, "formula": bp.to_bp(f)}}
    return {"name": "%s:%s" % (kind, f.serialize()), "status": "inconc", "reason": "unknown %s %s" % (m1, m2),
            "queried": True, "t": t1 + t2}


def gen_cnf(env, tier):
    g = BoolGrammar(env, atoms="mixed", quantifiers=False)
    out = g.levels(tier)
    # explicit DAG sharing: the same sub-formula in both polarities and under several parents
    m = env.formula_manager
    sh = m.And(g.a, m.Or(g.b, g.atoms[2]))
    out += [m.And(sh, m.Not(sh)), m.Or(m.Not(sh), m.Iff(sh, g.b)), m.Ite(sh, sh, m.Not(sh)),
            m.Implies(m.Iff(sh, g.a), m.And(sh, g.b)), m.Iff(m.Iff(sh, g.a), m.Iff(g.b, sh))]
    return BoolGrammar.uniq(out)


# ---- Ackermannization ---------------------------------------------------------------------------------------------
def abstract(f, tdict, env, memo=None):
    """independent replacement of every function application by its constant (outermost application wins;
    the arguments of inner applications are irrelevant to the resulting term)."""
    if memo is None:
        memo = {}
    if f in memo:
        return memo[f]
    if f.node_type() == op.FUNCTION:
        r = tdict[f]
    elif not f.args():
        r = f
    else:
        kids = tuple(abstract(a, tdict, env, memo) for a in f.args())
        r = env.formula_manager.create_node(node_type=f.node_type(), args=kids, payload=f._content.payload)
    memo[f] = r
    return r


def check_ack(env, f, timeout_ms=5000, ack=None):
    from pysmt.rewritings import Ackermannizer
    name = "ackermann"
    m = env.formula_manager
    if ack is None:
        ack = Ackermannizer(env)
    try:
        g = ack.do_ackermannization(f)
        tdict = dict(ack.get_term_to_const_dict())
    except Exception as e:
        return {"name": name, "status": "viol", "signature": "ack/raises:%s" % type(e).__name__,
                "describe": "ackermannization(%s) raises %r" % (f.serialize(), e),
                "replay": {"k": "ack", "formula": bp.to_bp(f)}}
    if any(t.node_type() == op.FUNCTION for t in rs.subterms(g)):
        return {"name": name, "status": "viol", "signature": "ack/form",
                "describe": "ackermannization(%s) = %s still contains a function application" % (f.serialize(), g.serialize()),
                "replay": {"k": "ack", "formula": bp.to_bp(f)}}
    apps = [t for t in rs.subterms(f) if t.node_type() == op.FUNCTION]
    missing = [t for t in apps if t not in tdict]
    if missing:
        return {"name": name, "status": "viol", "signature": "ack/dict",
                "describe": "term->constant dictionary misses %s" % missing,
                "replay": {"k": "ack", "formula": bp.to_bp(f)}}
    # a re-used instance also knows the applications of earlier formulas: their constants are "freshly
    # introduced symbols" of this output too, and the extension gives each the value of its term
    apps = apps + [t for t in tdict if t not in apps and t.node_type() == op.FUNCTION]
    tr = Z3Tr()
    try:
        zf, zg = tr.tr(f), tr.tr(g)
        defs = [tr.tr(tdict[t]) == tr.tr(t) for t in apps]
        fabs = tr.tr(abstract(f, tdict, env))
        cons = []
        for t1, t2 in itertools.combinations(apps, 2):
            if t1.function_name() is not t2.function_name():
                continue
            eqs = [tr.tr(abstract(a1, tdict, env)) == tr.tr(abstract(a2, tdict, env))
                   for a1, a2 in zip(t1.args(), t2.args())]
            cons.append(z3.Implies(z3.And(*eqs), tr.tr(tdict[t1]) == tr.tr(tdict[t2])))
    except Untranslatable as e:
        return {"name": name, "status": "inconc", "reason": str(e)}
    queries = [("model-of-input-does-not-extend", z3.Implies(z3.And(zf, *defs), zg)),
               ("output-does-not-imply-abstracted-input", z3.Implies(zg, fabs))]
    for c in cons:
        queries.append(("functional-consistency-not-implied", z3.Implies(zg, c)))
    tt = 0.0
    for which, q in queries:
        st, mo, dt = tv.check_valid(q, timeout_ms)
        tt += dt
        if st == "sat":
            return {"name": name, "status": "viol", "signature": "ack/%s" % which, "queried": True, "t": tt,
                    "describe": "ackermannization(%s) = %s : %s" % (f.serialize(), g.serialize(), which),
                    "replay": {"k": "ack", "formula": bp.to_bp(f)}}
        if st != "unsat":
            return {"name": "ack:%s" % f.serialize(), "status": "inconc", "reason": "unknown %s" % mo, "queried": True, "t": tt}
    return {"name": name, "status": "ok", "queried": True, "queries": len(queries), "t": tt, "nontrivial": bool(apps),
            "sample": {"kind": "ackermann", "input": f.serialize(), "output": g.serialize(),
                       "verdict": "%d validity queries unsat" % len(queries)}}


def gen_ack(env, tier):
    m = env.formula_manager
    tm = env.type_manager
    i, j = m.Symbol("i", T.INT), m.Symbol("j", T.INT)
    a = m.Symbol("a", T.BOOL)
    f = m.Symbol("f", tm.FunctionType(T.INT, [T.INT]))
    g = m.Symbol("g", tm.FunctionType(T.INT, [T.INT, T.INT]))
    p = m.Symbol("p", tm.FunctionType(T.BOOL, [T.INT]))
    h = m.Symbol("h", tm.FunctionType(T.BOOL, [T.BOOL]))
    bv2 = tm.BVType(2)
    x = m.Symbol("x", bv2)
    fv = m.Symbol("fv", tm.FunctionType(bv2, [bv2]))
    F = lambda t: m.Function(f, [t])
    G = lambda s, t: m.Function(g, [s, t])
    P = lambda t: m.Function(p, [t])
    one = m.Int(1)
    ints = [i, j, F(i), F(j), F(F(i)), F(m.Plus(i, one)), F(m.Plus(F(i), one)), G(i, j), G(F(i), j), G(j, F(j)),
            m.Plus(F(i), F(j)), G(G(i, j), i), m.Ite(P(i), F(i), j)]
    atoms = []
    for s, t in itertools.product(ints, repeat=2):
        if s is t:
            continue
        atoms.append(m.Equals(s, t))
        atoms.append(m.LT(s, t))
    atoms += [P(t) for t in ints]
    atoms += [m.Function(h, [a]), m.Function(h, [P(i)]), m.Function(h, [m.Function(h, [a])]),
              m.Equals(m.Function(fv, [x]), x), m.Equals(m.Function(fv, [m.Function(fv, [x])]), m.BVNot(x)),
              m.BVULT(m.Function(fv, [m.BVAdd(x, m.Function(fv, [x]))]), x)]
    atoms = BoolGrammar.uniq(atoms)
    out = list(atoms)
    sel = atoms[::3] if tier == "quick" else atoms
    for s, t in itertools.product(sel[::2] if tier == "quick" else sel[::2], sel[1::5]):
        out.append(m.And(s, m.Not(t)))
        out.append(m.Implies(s, t))
    if tier == "thorough":
        for s, t, u in itertools.product(atoms[::11], atoms[3::13], atoms[5::17]):
            out.append(m.Or(m.And(s, t), m.Iff(t, u)))
    return BoolGrammar.uniq(out)


def gen_ack_reuse(env, tier):
    """pairs (f1, f2) handed one after the other to the SAME Ackermannizer instance; they share applications"""
    forms = gen_ack(env, "quick")
    sel = forms[::7] if tier == "quick" else forms[::3]
    out = []
    for k, f1 in enumerate(sel):
        for f2 in sel[k + 1::5]:
            if f1 is not f2:
                out.append((f1, f2))
                out.append((f2, f1))
    return out


def check_ack_reuse(env, pair, timeout_ms=5000):
    from pysmt.rewritings import Ackermannizer
    f1, f2 = pair
    ack = Ackermannizer(env)
    try:
        ack.do_ackermannization(f1)
    except Exception:
        return {"name": "ack-reuse", "status": "ok", "skipped": True}
    r = check_ack(env, f2, timeout_ms, ack=ack)
    if r["status"] == "viol":
        r["signature"] = r["signature"].replace("ack/", "ack-reuse/")
        r["describe"] = "after do_ackermannization(%s) on the same instance: %s" % (f1.serialize(), r["describe"])
        r["replay"] = {"k": "ack-reuse", "first": bp.to_bp(f1), "formula": bp.to_bp(f2)}
    r["name"] = "ack-reuse"
    return r


def mk(kind):
    def chk(env, f):
        return check_cnf(kind, env, f)
    return chk


def gen_cnf_reuse(env, tier):
    forms = gen_cnf(env, "quick")
    sel = forms[::5] if tier == "quick" else forms[::2]
    out = []
    for k, f1 in enumerate(sel):
        for f2 in sel[k + 1::7][:6]:
            for kind in ("cnf", "cnf_as_set", "polarity"):
                out.append((kind, f1, f2))
                out.append((kind, f2, f1))
    return out


def check_cnf_reuse(env, inst, timeout_ms=5000):
    kind, f1, f2 = inst
    r = check_cnf(kind, env, f2, timeout_ms, first=f1)
    r["name"] = "cnf-reuse"
    if r["status"] == "viol":
        r["signature"] = "cnf-reuse/" + r["signature"]
        r["describe"] = "after converting %s with the same converter: %s" % (f1.serialize(), r["describe"])
        r["replay"] = {"k": "cnf-reuse", "kind": kind, "first": bp.to_bp(f1), "formula": bp.to_bp(f2)}
    return r


for _k in ("cnf", "cnf_as_set", "polarity"):
    tv.register("c11-" + _k, gen_cnf, mk(_k))
tv.register("c11-cnf-reuse", gen_cnf_reuse, check_cnf_reuse)
tv.register("c11-ackermann", gen_ack, check_ack)
tv.register("c11-ackermann-reuse", gen_ack_reuse, check_ack_reuse)


def replay(data):
    env = tv.fresh_env()
    f = bp.from_bp(data["formula"], env)
    if data["k"] == "cnf-reuse":
        r = check_cnf_reuse(env, (data["kind"], bp.from_bp(data["first"], env), f), timeout_ms=20000)
    elif data["k"] == "ack-reuse":
        r = check_ack_reuse(env, (bp.from_bp(data["first"], env), f), timeout_ms=20000)
    elif data["k"] == "ack":
        r = check_ack(env, f, timeout_ms=20000)
    else:
        r = check_cnf(data["k"], env, f, timeout_ms=20000)
    if r["status"] == "viol":
        return True, r["describe"]
    return False, "status=%s %s" % (r["status"], r.get("reason", ""))


def run(run, only=None):
    run.functions = [{"module": "pysmt/rewritings.py", "what": "cnf, cnf_as_set, PolarityCNFizer.convert_as_formula, "
                      "Ackermannizer.do_ackermannization/get_term_to_const_dict",
                      "sha1": core.src_sha("pysmt/rewritings.py")}]
    run.bounds = {"cnf": "Boolean skeletons (see C10) without quantifiers, incl. True/False, Bool-ITE, IFF, 3-ary and/or, "
                         "explicitly shared sub-formulas in both polarities; theory atoms opaque",
                  "ackermann": "atoms over {i, j, f(i), f(j), f(f(i)), f(i+1), f(f(i)+1), g(i,j), g(f(i),j), g(j,f(j)), "
                               "f(i)+f(j), g(g(i,j),i), ite(p(i),f(i),j)}, Bool-valued and BV-valued functions; "
                               "Boolean combinations of up to 3 atoms; <= 6 applications per symbol",
                  "quantification": "auxiliary symbols existentially quantified inside z3 (exact for Bool); all "
                                    "interpretations of the original symbols"}
    run.outside = ["formulas with quantifiers (outside the procedures' fragment)", "more than 6 applications per symbol"]
    run.assumptions = ["z3 native semantics (tr_z3.py)"]
    for fam in ("cnf", "cnf_as_set", "polarity", "cnf-reuse", "ackermann", "ackermann-reuse"):
        if only and fam not in only:
            continue
        tv.run_family(run, "c11-" + fam, run.tier)
    run.extra["programs"] = run.evaluations
