"""C15 XH harness: the crash point of a traversal is a symbolic variable.

A counting wrapper is put (from outside) around every callback of one long-lived walker of the environment
(substituter, simplifier, type checker, free-variable / atoms / theory / size / quantifier / types oracles);
it raises InjectedFault at the k-th callback, k symbolic in [0, N) where N is the number of callbacks of the
unfaulted run.  After the failure a fixed probe sequence runs on the same environment and on an untouched twin;
every probe must give structurally equal results (or raise the same exception type) in both.
"""
from crosshair.tracers import NoTracing

from engine.xh.model import new_env
from engine.ref import refstruct as rs

PARAMS = {}


class InjectedFault(Exception):
    pass


def universe(env):
    """formulas sharing sub-DAGs"""
    from pysmt import typing as T
    m = env.formula_manager
    a, b = m.Symbol("a", T.BOOL), m.Symbol("b", T.BOOL)
    x, y, z = m.Symbol("x", T.INT), m.Symbol("y", T.INT), m.Symbol("z", T.INT)
    f = m.Symbol("f", env.type_manager.FunctionType(T.INT, [T.INT]))
    xc = m.Plus(x, m.Int(1))
    sh = m.LT(xc, m.Times(y, m.Int(2)))
    f1 = m.And(sh, m.Or(a, m.Not(sh)), m.Equals(m.Function(f, [xc]), z))
    f2 = m.Implies(m.And(a, sh), m.ForAll([x], m.Exists([y], m.LT(m.Plus(x, y), xc))))
    f3 = m.Ite(sh, m.Plus(xc, xc, z), m.Minus(xc, m.Int(0)))
    f4 = m.Iff(m.And(a, b, m.TRUE()), m.Or(m.LE(z, xc), m.Not(b)))
    return {"f1": f1, "f2": f2, "f3": f3, "f4": f4, "x": x, "y": y, "z": z, "a": a, "b": b, "xc": xc, "sh": sh}


def target_walker(env, which):
    return {"substituter": env.substituter, "simplifier": env.simplifier, "stc": env.stc, "fvo": env.fvo, "ao": env.ao,
            "theoryo": env.theoryo, "sizeo": env.sizeo, "qfo": env.qfo, "typeso": env.typeso}[which]


def operation(env, U, which):
    """the call that is made to fail"""
    m = env.formula_manager
    if which == "substituter":
        return lambda: U["f1"].substitute({U["x"]: U["y"], U["z"]: m.Plus(U["y"], m.Int(3))})
    if which == "simplifier":
        return lambda: U["f4"].simplify()
    if which == "stc":
        return lambda: m.And(m.LT(m.Plus(U["x"], U["z"], m.Int(7)), U["y"]), U["a"]).get_type()
    if which == "fvo":
        return lambda: U["f2"].get_free_variables()
    if which == "ao":
        return lambda: U["f1"].get_atoms()
    if which == "theoryo":
        return lambda: env.theoryo.get_theory(U["f2"])
    if which == "sizeo":
        return lambda: U["f3"].size(1)
    if which == "qfo":
        return lambda: env.qfo.is_qf(U["f2"])
    if which == "typeso":
        return lambda: env.typeso.get_types(U["f1"])
    raise ValueError(which)


def wrap(walker, kk, counter):
    """wrap every callback of the walker; returns an undo function"""
    saved = dict(walker.functions)

    def mk(fn):
        def w(formula, *a, **kw):
            counter[0] += 1
            if counter[0] - 1 == kk:
                raise InjectedFault()
            return fn(formula, *a, **kw)
        return w
    for nt, fn in saved.items():
        walker.functions[nt] = mk(fn)

    def undo():
        for nt, fn in saved.items():
            walker.functions[nt] = fn
    return undo


def key_of(v):
    from pysmt.fnode import FNode
    if isinstance(v, FNode):
        return ("F", rs.skey(v))
    if isinstance(v, (set, frozenset, list, tuple)):
        return ("S", tuple(sorted((repr(key_of(x)) for x in v))))
    return ("V", str(v))


def probes(env, U):
    """fixed probe sequence; each entry -> result key or exception type name"""
    from pysmt.smtlib.parser import SmtLibParser
    import io
    m = env.formula_manager
    out = []

    def run(fn):
        try:
            out.append(key_of(fn()))
        except Exception as e:
            out.append(("E", type(e).__name__))
    run(lambda: U["f3"].simplify())
    run(lambda: U["f1"].substitute({U["y"]: U["z"]}))
    run(lambda: U["f2"].substitute({U["z"]: m.Int(5)}))
    run(lambda: U["f1"].get_type())
    run(lambda: U["f2"].get_free_variables())
    run(lambda: U["f1"].get_atoms())
    run(lambda: str(env.theoryo.get_theory(U["f1"])))
    run(lambda: env.qfo.is_qf(U["f2"]))
    run(lambda: U["f3"].size(0))
    run(lambda: U["f3"].size(1))
    run(lambda: U["f1"].serialize())
    run(lambda: U["f4"].to_smtlib())
    run(lambda: U["f4"].simplify())
    run(lambda: m.And(m.LT(m.Plus(U["x"], U["z"], m.Int(7)), U["y"]), U["a"]))
    run(lambda: U["f1"].substitute({U["x"]: U["y"], U["z"]: m.Plus(U["y"], m.Int(3))}))
    run(lambda: SmtLibParser(env).get_script(io.StringIO("(declare-fun x () Int)(assert (< x 3))")).get_last_formula())
    # name and identity bookkeeping (plain strings: not normalised by key_of)
    from pysmt import typing as T
    run(lambda: "fresh:" + m.FreshSymbol(T.INT).symbol_name())
    return out


def count_callbacks(which):
    with NoTracing():
        env = new_env(dict_model=False)
        U = universe(env)
        counter = [0]
        undo = wrap(target_walker(env, which), -1, counter)
        try:
            operation(env, U, which)()
        finally:
            undo()
        return counter[0]


def fault_body(k, twin):
    which = PARAMS["which"]
    n = PARAMS["n"]
    kk = -1
    for j in range(n):             # the only symbolic branching: which callback fails
        if k == j:
            kk = j
            break
    if kk < 0:
        return True
    with NoTracing():
        env = new_env(dict_model=False)
        U = universe(env)
        counter = [0]
        undo = wrap(target_walker(env, which), kk, counter)
        failed = False
        try:
            operation(env, U, which)()
        except InjectedFault:
            failed = True
        finally:
            undo()
        got = probes(env, U)
        tenv = new_env(dict_model=False)
        TU = universe(tenv)
        exp = probes(tenv, TU)
        same = (got == exp)
    if twin:
        return not failed
    return same


def h_fault(k: int) -> bool:
    """
    pre: 0 <= k < PARAMS['n']
    post: _
    """
    return fault_body(k, False)


def h_fault_twin(k: int) -> bool:
    """
    pre: 0 <= k < PARAMS['n']
    post: _
    """
    return fault_body(k, True)


# (the size oracle re-installs its callbacks on every call, so it cannot be wrapped from outside)
WALKERS = ["substituter", "simplifier", "stc", "fvo", "ao", "theoryo", "qfo", "typeso"]
