"""C15 - a failing call leaves no trace: later calls behave as if it never happened.

xh-fault : CrossHair with the crash point of a traversal as a symbolic variable (props/c15_xh.py): a fault is injected
           at the k-th callback of one long-lived walker, then a fixed probe sequence must agree with a twin environment.
natural  : naturally failing calls (ill-typed construction, ill-typed substitution value, walker on an unsupported
           operator, failing SMT-LIB scripts on a re-used parser, failing HR parse) followed by the same probes.
"""
import io

from engine import core
from engine.ref import refstruct as rs
from engine.tv import driver as tv
from engine.xh import driver as xh

LEVEL = "fault_enumeration"


# ---- natural failures (concrete, run natively through the TV driver infrastructure) ----------------------------------
def natural_cases():
    """name -> function(env, U) performing a call that must raise"""
    from pysmt import typing as T

    def sub_ill(env, U, cache):
        # the retry passes the very same argument objects (a caller's `subs` dictionary)
        U["f1"].substitute(cache.setdefault("d", {U["x"]: env.formula_manager.Real(1)}))

    def sub_ill_deep(env, U, cache):
        U["f2"].substitute(cache.setdefault("d", {U["z"]: env.formula_manager.TRUE()}))

    def constr_ill(env, U, cache):
        env.formula_manager.Plus(U["x"], env.formula_manager.Real(1))

    def constr_ill_bv(env, U, cache):
        m = env.formula_manager
        m.BVAdd(m.Symbol("v8", env.type_manager.BVType(8)), m.Symbol("v16", env.type_manager.BVType(16)))

    def constr_ill_fun(env, U, cache):
        m = env.formula_manager
        m.Function(m.Symbol("f", env.type_manager.FunctionType(T.INT, [T.INT])), cache.setdefault("a", [m.Real(1)]))

    def constr_ill_quant(env, U, cache):
        m = env.formula_manager
        m.ForAll([U["x"]], m.Plus(U["x"], m.Int(1)))

    def cnf_quant(env, U, cache):
        from pysmt.rewritings import cnf
        cnf(U["f2"], env)

    def sub_nonterm(env, U, cache):
        m = env.formula_manager
        U["f1"].substitute(cache.setdefault("d", {m.Symbol("f", env.type_manager.FunctionType(T.INT, [T.INT])): U["x"]}))

    def fresh_fail(env, U, cache):
        env.formula_manager.new_fresh_symbol(None)

    def equals_bool(env, U, cache):
        env.formula_manager.Equals(U["a"], U["b"])

    def hr_fail(env, U, cache):
        from pysmt.parsing import HRParser
        HRParser(env).parse("(x + ) < y")

    def simplify_foreign(env, U, cache):
        # a formula of another environment makes the substituter reject its keys
        if "d" not in cache:
            other = tv.fresh_env()
            from pysmt.environment import pop_env
            pop_env()
            k = other.formula_manager.Symbol("x", T.INT)
            cache["d"] = {k: U["y"]}
        U["f1"].substitute(cache["d"])

    def sub_foreign_value(env, U, cache):
        if "d" not in cache:
            other = tv.fresh_env()
            from pysmt.environment import pop_env
            pop_env()
            cache["d"] = {U["x"]: other.formula_manager.Symbol("foreign", T.INT)}
        U["f1"].substitute(cache["d"])
    return {"substitute ill-typed value": sub_ill, "substitute ill-typed value under quantifier": sub_ill_deep,
            "ill-typed Plus": constr_ill, "ill-typed BVAdd": constr_ill_bv, "ill-typed Function": constr_ill_fun,
            "ill-typed ForAll": constr_ill_quant, "cnf of a quantifier": cnf_quant, "substitute non-term key": sub_nonterm,
            "fresh symbol with bad type": fresh_fail, "Equals on Booleans": equals_bool, "HR syntax error": hr_fail,
            "substitute foreign key": simplify_foreign, "substitute foreign value": sub_foreign_value}


PARSER_SCRIPTS = [
    ("type error inside let under QF_LRA", "(set-logic QF_LRA)(declare-fun r () Real)(assert (let ((a 1)) (< (+ a true) r)))"),
    ("undefined function", "(declare-fun x () Int)(define-fun k ((t Int)) Int (+ t 1))(assert (let ((q (k x))) (nosuch q)))"),
    ("unsupported command inside push", "(declare-fun p () Bool)(push 1)(define-fun dd () Bool p)(frobnicate)"),
    ("unbalanced inside quantifier", "(declare-fun x () Int)(assert (forall ((y Int)) (< x y"),
    ("bad sort", "(declare-fun x () Foo)"),
]
FOLLOW_UP = [
    "(declare-fun i () Int)(assert (= i 1))",
    "(declare-fun a () Int)(declare-fun q () Int)(assert (< a q))",
    "(declare-fun x () Int)(declare-fun w () Real)(assert (< (to_real x) w))",
    "(declare-fun t () Bool)(declare-fun y () Int)(assert (and t (< y 2)))",
    "(declare-fun dd () Int)(declare-fun k () Int)(assert (< dd k))",
]


def gen_natural(env, tier):
    out = [("api", nm) for nm in natural_cases()]
    out += [("parser", k) for k in range(len(PARSER_SCRIPTS))]
    return out


def check_natural(env_unused, inst):
    from pysmt.environment import pop_env
    from props import c15_xh
    kind, which = inst
    name = "natural/%s" % (which,)
    env = tv.fresh_env()          # current environment while the failing call and its probes run
    tenv = None
    try:
        if kind == "api":
            U = c15_xh.universe(env)
            fn = natural_cases()[which]
            raised = False
            cache = {}
            try:
                fn(env, U, cache)
            except Exception:
                raised = True
            if not raised:
                return {"name": name, "status": "ok", "skipped": True}
            # the failing call repeated must fail the same way (it never happened)
            again = False
            try:
                fn(env, U, cache)
            except Exception:
                again = True
            got = c15_xh.probes(env, U)
            tenv = tv.fresh_env()     # the untouched twin becomes the current environment for its own probes
            TU = c15_xh.universe(tenv)
            exp = c15_xh.probes(tenv, TU)
            if not again:
                return viol(name, "notrace/repeat-accepted/%s" % which,
                            "the failing call %r succeeds when repeated on the same environment" % which, inst)
            if got != exp:
                bad = [k for k, (g, e) in enumerate(zip(got, exp)) if g != e]
                return viol(name, "notrace/api/%s" % which, "after the failing call %r probes %s differ from an untouched "
                            "environment: %s vs %s" % (which, bad, [got[k] for k in bad][:2], [exp[k] for k in bad][:2]), inst)
            return {"name": name, "status": "ok", "nontrivial": True, "sample": {"failing call": which, "probes": len(got)}}
        # parser re-use
        from pysmt.smtlib.parser import SmtLibParser
        nm, bad_script = PARSER_SCRIPTS[which]
        parser = SmtLibParser(env)
        try:
            parser.get_script(io.StringIO(bad_script))
            return {"name": name, "status": "ok", "skipped": True}
        except Exception:
            pass
        def rd(p, fu):
            try:
                return ("F", rs.skey(p.get_script(io.StringIO(fu)).get_last_formula()))
            except Exception as ex:
                return ("E", type(ex).__name__)
        gots = [rd(parser, fu) for fu in FOLLOW_UP]
        tenv = tv.fresh_env()
        tparser = SmtLibParser(tenv)
        exps = [rd(tparser, fu) for fu in FOLLOW_UP]
        for fu, got, exp in zip(FOLLOW_UP, gots, exps):
            if got != exp:
                return viol("natural/parser/%s" % nm, "notrace/parser/%s" % nm,
                            "after the failing script %r the same parser reads %r as %s, a fresh parser as %s" % (nm, fu, got, exp), inst)
        return {"name": name, "status": "ok", "nontrivial": True, "sample": {"failing script": nm, "follow-ups": len(FOLLOW_UP)}}
    finally:
        pop_env()
        if tenv is not None:
            pop_env()


def viol(name, sig, describe, inst):
    return {"name": name, "status": "viol", "signature": sig, "describe": describe,
            "replay": {"kind": "natural", "inst": list(inst)}}


tv.register("c15-natural", gen_natural, check_natural)


def replay(data):
    if data.get("kind") == "xh":
        from props.c02 import replay_call
        d = dict(data)
        d["mod"] = "props.c15_xh"
        return replay_call(d)
    r = check_natural(None, tuple(data["inst"]))
    if r["status"] == "viol":
        return True, r["describe"]
    return False, "ok"


def run(run, only=None):
    from props import c15_xh
    from props.c02 import run_xh_family, twin_check
    run.functions = [{"module": "pysmt/walkers/dag.py, pysmt/substituter.py, pysmt/formula.py, pysmt/smtlib/parser/parser.py",
                      "what": "DagWalker.walk/iter_walk state (stack, memoization) of env.substituter/simplifier/stc/oracles; "
                              "FormulaManager.create_node; SmtLibParser re-use",
                      "sha1": core.src_sha("pysmt/walkers/dag.py", "pysmt/substituter.py", "pysmt/formula.py",
                                           "pysmt/smtlib/parser/parser.py", "pysmt/environment.py")}]
    run.bounds = {"crash point": "every callback index of the traversal (symbolic k) for 9 long-lived walkers on formulas "
                                 "sharing sub-DAGs", "natural": "%d naturally failing API calls, %d failing scripts x %d follow-up "
                  "scripts on the same parser" % (len(natural_cases()), len(PARSER_SCRIPTS), len(FOLLOW_UP)),
                  "probes": "16 probe calls compared with an untouched twin environment"}
    run.outside = ["failures inside CPython built-ins (MemoryError, KeyboardInterrupt)", "external solver objects"]
    if not only or "natural" in only:
        tv.run_family(run, "c15-natural", run.tier)
    if not only or "xh-fault" in only:
        jobs = []
        for w in c15_xh.WALKERS:
            n = c15_xh.count_callbacks(w)
            jobs.append(("props.c15_xh", "h_fault", 120.0 if run.tier == "quick" else 400.0, {"which": w, "n": n, "name": "fault/%s (N=%d)" % (w, n)}))

        def describe(p, r):
            return "fault injected at callback %r of %s: later probes differ from an untouched environment" % (r["args"], p["which"])
        run_xh_family(run, "xh-fault", jobs, describe, lambda p, a: "notrace/fault/%s" % p["which"], "xh")
        twin_check(run, "xh-fault", jobs[::3])
    run.nontrivial.update(["natural", "fault"])
    run.extra["distinct_nontrivial"] = max(run.extra.get("distinct_nontrivial", 0), 2)
