"""XH harnesses shared by C01 (fold) and C02 (model evaluation): the real simplifier / EagerModel run on
formulas whose constant payloads (and the interpretation values) are CrossHair symbolic values.

PARAMS (set by the driver before analysis) selects the operator, widths and the argument pattern; the
integer/bool/string parameters of the harness are the symbolic payloads.
"""
from fractions import Fraction

from engine.xh.model import new_env
from engine.ref import refeval

PARAMS = {}


# ---- operator table -------------------------------------------------------------------------------------------
# name -> (argument sorts, constructor name / callable)
#   sorts: "B" "I" "R" "S" "V" (BV of PARAMS width) "V2" (BV of second width)
def optable():
    T = {}
    for n in ("BVAnd", "BVOr", "BVXor", "BVAdd", "BVSub", "BVMul", "BVUDiv", "BVURem", "BVLShl", "BVLShr", "BVAShr",
              "BVSDiv", "BVSRem", "BVComp", "BVULT", "BVULE", "BVSLT", "BVSLE", "Equals"):
        T[n] = (("V", "V"), n)
    T["BVSMod"] = (("V", "V"), "BVSMod")
    for n in ("BVNot", "BVNeg", "BVToNatural"):
        T[n] = (("V",), n)
    T["BVConcat"] = (("V", "V2"), "BVConcat")
    T["BVExtract"] = (("V", "k", "k"), "BVExtract")
    for n in ("BVRol", "BVRor", "BVZExt", "BVSExt"):
        T[n] = (("V", "k"), n)
    for n in ("Plus", "Minus", "Times", "LE", "LT", "Div"):
        T[n + "/I"] = (("I", "I"), n)
        T[n + "/R"] = (("R", "R"), n)
    T["Equals/I"] = (("I", "I"), "Equals")
    T["Equals/R"] = (("R", "R"), "Equals")
    T["ToReal"] = (("I",), "ToReal")
    T["Pow/I"] = (("I", "e"), "Pow")
    T["Pow/R"] = (("R", "e"), "Pow")
    for n in ("And", "Or", "Implies", "Iff"):
        T[n] = (("B", "B"), n)
    T["Not"] = (("B",), "Not")
    T["Ite/I"] = (("B", "I", "I"), "Ite")
    T["Ite/V"] = (("B", "V", "V"), "Ite")
    T["Ite/B"] = (("B", "B", "B"), "Ite")
    T["StrLength"] = (("S",), "StrLength")
    T["StrToInt"] = (("S",), "StrToInt")
    T["IntToStr"] = (("I",), "IntToStr")
    for n in ("StrConcat", "StrContains", "StrPrefixOf", "StrSuffixOf"):
        T[n] = (("S", "S"), n)
    T["Equals/S"] = (("S", "S"), "Equals")
    T["StrCharAt"] = (("S", "I"), "StrCharAt")
    T["StrIndexOf"] = (("S", "S", "I"), "StrIndexOf")
    T["StrSubstr"] = (("S", "I", "I"), "StrSubstr")
    T["StrReplace"] = (("S", "S", "S"), "StrReplace")
    return T


OPS = optable()


def in_range(i0, i1, i2, n0, n1, d0, d1, s0, s1, s2):
    """Precondition: symbolic payloads inside the stated box for the selected operator."""
    sorts = OPS[PARAMS["op"]][0]
    w = PARAMS.get("w", 4)
    w2 = PARAMS.get("w2", 2)
    ints = [i0, i1, i2]
    strs = [s0, s1, s2]
    L = PARAMS.get("strlen", 3)
    ok = True
    ii = 0
    ss = 0
    rr = 0
    for s in sorts:
        if s == "V":
            if not (0 <= ints[ii] < 2 ** w):
                ok = False
            ii += 1
        elif s == "V2":
            if not (0 <= ints[ii] < 2 ** w2):
                ok = False
            ii += 1
        elif s == "k":
            if not (-1 <= ints[ii] <= w + 1):
                ok = False
            ii += 1
        elif s == "e":
            if not (0 <= ints[ii] <= 3):
                ok = False
            ii += 1
        elif s == "I":
            box = PARAMS.get("ibox")
            if box is not None and not (box[0] <= ints[ii] <= box[1]):
                ok = False
            ii += 1
        elif s == "S":
            if len(strs[ss]) > L:
                ok = False
            ss += 1
        elif s == "R":
            n, d = ((n0, d0), (n1, d1))[rr]
            q = PARAMS.get("qbox", 3)
            if not (-q <= n <= q and 1 <= d <= q):
                ok = False
            rr += 1
    return ok


def mk_const(mgr, sort, val):
    w = PARAMS.get("w", 4)
    w2 = PARAMS.get("w2", 2)
    if sort == "V":
        return mgr.BV(val, w)
    if sort == "V2":
        return mgr.BV(val, w2)
    if sort == "I":
        return mgr.Int(val)
    if sort == "B":
        return mgr.Bool(val)
    if sort == "S":
        return mgr.String(val)
    if sort == "R":
        return mgr.Real(val)
    raise ValueError(sort)


def mk_symbol(mgr, env, sort, k):
    from pysmt import typing as T
    w = PARAMS.get("w", 4)
    w2 = PARAMS.get("w2", 2)
    ty = {"V": None, "V2": None, "I": T.INT, "B": T.BOOL, "S": T.STRING, "R": T.REAL}[sort]
    if sort == "V":
        ty = env.type_manager.BVType(w)
    if sort == "V2":
        ty = env.type_manager.BVType(w2)
    return mgr.Symbol("x%d" % k, ty)


def split_values(i0, i1, i2, b0, b1, b2, n0, n1, d0, d1, s0, s1, s2):
    sorts = OPS[PARAMS["op"]][0]
    ints = [i0, i1, i2]
    bools = [b0, b1, b2]
    strs = [s0, s1, s2]
    rats = [(n0, d0), (n1, d1)]
    vals = []
    ii = bb = ss = rr = 0
    for s in sorts:
        if s in ("V", "V2", "I", "k", "e"):
            vals.append(ints[ii])
            ii += 1
        elif s == "B":
            vals.append(bools[bb])
            bb += 1
        elif s == "S":
            vals.append(strs[ss])
            ss += 1
        elif s == "R":
            n, d = rats[rr]
            vals.append(Fraction(n, d))
            rr += 1
    return sorts, vals


def apply_op(mgr, args):
    name = OPS[PARAMS["op"]][1]
    sorts = OPS[PARAMS["op"]][0]
    real = []
    for s, a in zip(sorts, args):
        real.append(a)
    if name == "Pow":
        base, e = real
        ec = mgr.Real(e) if PARAMS["op"].endswith("/R") else mgr.Int(e)
        return mgr.Pow(base, ec)
    return getattr(mgr, name)(*real)


def value_matches(node, exp):
    """node: pySMT constant node; exp: reference value."""
    if not node.is_constant():
        return False
    v = node.constant_value()
    if isinstance(exp, bool):
        return node.is_bool_constant() and v == exp
    if isinstance(exp, str):
        return node.is_string_constant() and v == exp
    if node.is_bool_constant():
        return False
    return v == exp


def h_model_eval(i0: int, i1: int, i2: int, b0: bool, b1: bool, b2: bool, n0: int, n1: int, d0: int, d1: int,
                 s0: str, s1: str, s2: str) -> bool:
    """
    pre: in_range(i0, i1, i2, n0, n1, d0, d1, s0, s1, s2)
    post: _
    """
    return model_eval_body(i0, i1, i2, b0, b1, b2, n0, n1, d0, d1, s0, s1, s2, False)


def h_model_eval_twin(i0: int, i1: int, i2: int, b0: bool, b1: bool, b2: bool, n0: int, n1: int, d0: int, d1: int,
                      s0: str, s1: str, s2: str) -> bool:
    """
    pre: in_range(i0, i1, i2, n0, n1, d0, d1, s0, s1, s2)
    post: _
    """
    return model_eval_body(i0, i1, i2, b0, b1, b2, n0, n1, d0, d1, s0, s1, s2, True)


def model_eval_body(i0, i1, i2, b0, b1, b2, n0, n1, d0, d1, s0, s1, s2, twin):
    """C02: f = op(x1..xn) over symbols, assignment xi -> Const(vi) with symbolic vi; EagerModel.get_value(f)
    must be the constant refeval says (index-like parameters 'k'/'e' are part of the operator, not symbols)."""
    env = new_env()
    mgr = env.formula_manager
    sorts, vals = split_values(i0, i1, i2, b0, b1, b2, n0, n1, d0, d1, s0, s1, s2)
    args = []
    assignment = {}
    interp = {}
    for k, (s, v) in enumerate(zip(sorts, vals)):
        if s in ("k", "e"):
            args.append(v)
        else:
            sym = mk_symbol(mgr, env, s, k)
            args.append(sym)
            assignment[sym] = mk_const(mgr, s, v)
            interp[sym] = v
    try:
        f = apply_op(mgr, args)
    except Exception:
        return True        # ill-formed application (index out of range): not an instance of C02
    from pysmt.solvers.eager import EagerModel
    model = EagerModel(assignment, env)
    try:
        exp = refeval.evaluate(f, interp)
    except refeval.DivByZero:
        return True        # interpretation evaluates an Int/Real division by zero: unconstrained
    if twin:
        return False       # reachability twin: the comparison point is reachable
    got = model.get_value(f)
    ok = value_matches(got, exp)
    if ok and isinstance(exp, bool):
        ok = model.satisfies(f) == exp
    return ok


def fold_body(i0, i1, i2, b0, b1, b2, n0, n1, d0, d1, s0, s1, s2, twin):
    """C01: pattern PARAMS['pat'] is a string over {'c','x'} per argument: 'c' = symbolic constant,
    'x' = opaque symbol whose value is a further symbolic input (taken from the same payload list)."""
    env = new_env()
    mgr = env.formula_manager
    sorts, vals = split_values(i0, i1, i2, b0, b1, b2, n0, n1, d0, d1, s0, s1, s2)
    pat = PARAMS.get("pat", "c" * len(sorts))
    args = []
    interp = {}
    for k, (s, v) in enumerate(zip(sorts, vals)):
        if s in ("k", "e"):
            args.append(v)
        elif pat[k] == "c":
            args.append(mk_const(mgr, s, v))
        elif pat[k] == "s":
            # the same symbol as in the previous position (one value: the previous position's)
            args.append(args[k - 1])
        else:
            sym = mk_symbol(mgr, env, s, k)
            args.append(sym)
            interp[sym] = v
    try:
        f = apply_op(mgr, args)
    except Exception:
        return True
    try:
        exp = refeval.evaluate(f, interp)
    except refeval.DivByZero:
        return True
    if twin:
        return False
    g = env.simplifier.simplify(f)
    if g.get_type() != f.get_type():
        return False
    try:
        got = refeval.evaluate(g, interp)
    except refeval.DivByZero:
        return True
    if isinstance(exp, bool) or isinstance(got, bool):
        return isinstance(exp, bool) and isinstance(got, bool) and got == exp
    if isinstance(exp, str) or isinstance(got, str):
        return isinstance(exp, str) and isinstance(got, str) and got == exp
    return got == exp


def h_fold(i0: int, i1: int, i2: int, b0: bool, b1: bool, b2: bool, n0: int, n1: int, d0: int, d1: int,
           s0: str, s1: str, s2: str) -> bool:
    """
    pre: in_range(i0, i1, i2, n0, n1, d0, d1, s0, s1, s2)
    post: _
    """
    return fold_body(i0, i1, i2, b0, b1, b2, n0, n1, d0, d1, s0, s1, s2, False)


def h_fold_twin(i0: int, i1: int, i2: int, b0: bool, b1: bool, b2: bool, n0: int, n1: int, d0: int, d1: int,
                s0: str, s1: str, s2: str) -> bool:
    """
    pre: in_range(i0, i1, i2, n0, n1, d0, d1, s0, s1, s2)
    post: _
    """
    return fold_body(i0, i1, i2, b0, b1, b2, n0, n1, d0, d1, s0, s1, s2, True)
