"""C19 - portfolio answer is independent of the race and never blocks forever (parent side; engine XH over fakes).

Claimed: the parent-side selection logic under every arrival order, fault subset and "late loser" flag (symbolic).
NOT claimed (no engine can execute multiprocessing symbolically; a sequential fake cannot express them): real OS
scheduling - near-ties in time, a loser consuming a control message between selection and terminate(), signal latency.
"""
from engine import core

LEVEL = "fault_enumeration"


def replay(data):
    from props.c02 import replay_call
    d = dict(data)
    d["mod"] = "props.c19_xh"
    return replay_call(d)


def run(run, only=None):
    from props import c19_xh
    from props.c02 import run_xh_family, twin_check
    run.functions = [{"module": "pysmt/solvers/portfolio.py", "what": "Portfolio._solve/get_model/get_value/_close_existing and the "
                      "IncrementalTrackingSolver bookkeeping it inherits (push/pop/is_sat with pending pop)",
                      "sha1": core.src_sha("pysmt/solvers/portfolio.py", "pysmt/solvers/solver.py")}]
    members = (2,) if run.tier == "quick" else (2, 3)
    t = 400.0 if run.tier == "quick" else 2400.0
    run.bounds = {"members": "2 (quick) / 2-3", "per solve": "every outcome vector over {verdict, unknown, crash, dies silently}, every "
                  "arrival order, losers reporting late or not", "scripts": "solve / get_model / get_value / push / add / solve / pop / "
                  "add / solve ; is_sat then add then solve"}
    run.outside = ["OS-level races between real member processes (timing gaps, signal latency, a loser reading the shared "
                   "control pipe between selection and terminate())", "the child-side loop _run_solver (its members are modelled by their outcome; the text-interface member's reaction to a dead "
                   "solver process is the member-death family)"]
    jobs = []
    for n in members:
        for script in ("cycle", "oneshot"):
            for o1 in range(4 ** n):
                jobs.append(("props.c19_xh", "h_port", t, {"members": n, "script": script, "o1": o1,
                                                           "name": "portfolio/%d-members/%s/first-outcomes-%d" % (n, script, o1)}))

    def describe(p, r):
        return "%s with schedule codes %r: wrong verdict / hang / unusable model" % (p["name"], r["args"])
    if only:
        jobs = [j for j in jobs if any(o in j[3]["name"] for o in only)]
    if jobs:
        run_xh_family(run, "xh-schedule", jobs, describe, lambda p, a: "portfolio/%s" % p["script"], "xh")
        twin_check(run, "xh-schedule", jobs[:1])
    if not only or "member-death" in only:
        # a text-interface member whose external solver process dies must fail (so that the parent sees a failing member), never spin
        djobs = [("props.c19_xh", "h_death", 300.0, {"name": "member-death/text-interface"})]
        run.functions.append({"module": "pysmt/smtlib/solver.py", "what": "SmtLibSolver reply reading (_get_answer, get_value) at end-of-file",
                              "sha1": core.src_sha("pysmt/smtlib/solver.py")})
        run_xh_family(run, "xh-member-death", djobs,
                      lambda p, r: "SmtLibSolver member whose solver process dies after [commands answered, broken pipe on write, script] = %r "
                                   "does not fail promptly (returns normally or keeps reading at end-of-file)" % (r["args"],),
                      lambda p, a: "portfolio/member-death", "xh")
        twin_check(run, "xh-member-death", djobs)
        run.bounds["member death"] = ("external solver process of a text-interface member dies after 0..11 answered commands (symbolic), "
                                      "writes afterwards fail or are swallowed (symbolic), 3 call scripts: the call raises, within 200 reads")
    run.nontrivial.update(["a", "b"])
    run.extra["distinct_nontrivial"] = max(2, len(jobs))
