"""C20 XH harness (bounded form): work linear in DAG size, no call-stack recursion over operator nesting.

Families of nested formulas t_{k+1} = OP(t_k, leaf) (chain) or OP(t_k, t_k) (full sharing: tree size 2^d) with a SYMBOLIC
depth d in [2, 40] and a symbolic sharing flag; a second harness builds DAGs from symbolic child indices.
For each service (construction/type-check, simplify, substitute, analyses, logic detection, rewriters, DAG printing
and re-parsing):
  * WORK: the number of work-stack pops of all DagWalkers (counted from outside by wrapping
    DagWalker._compute_node_result / _push_with_children_to_stack) and of node constructions is <= c * |DAG| + c0;
  * STACK: the service succeeds when the interpreter's recursion limit is lowered to (current depth + B + 10),
    B = the head-room the same service needs at depth 2 - any per-level recursion needs ~d more frames.
"""
import sys

from crosshair.tracers import NoTracing

from engine.xh.model import new_env
from engine.ref import refstruct as rs

PARAMS = {}

FAMILIES = ["bool", "arith", "bv", "ite-bool", "ite-int", "ite-bv", "store", "uf", "times-div", "str", "int-div", "bv-misc",
            "retry-arith", "retry-bool"]
SERVICES = ["construct", "simplify", "substitute", "freevars", "atoms", "logic", "types", "qf", "size-dag", "nnf", "prenex", "aig",
            "times-distributor", "dagprint-parse"]


def leaves(env):
    from pysmt import typing as T
    m = env.formula_manager
    tm = env.type_manager
    return {"a": m.Symbol("a", T.BOOL), "b": m.Symbol("b", T.BOOL), "i": m.Symbol("i", T.INT), "j": m.Symbol("j", T.INT),
            "u": m.Symbol("u", T.STRING), "v": m.Symbol("v", T.STRING),
            "x": m.Symbol("x", tm.BVType(8)), "y": m.Symbol("y", tm.BVType(8)), "m": m.Symbol("m", tm.ArrayType(T.INT, T.INT)),
            "f": m.Symbol("f", tm.FunctionType(T.INT, [T.INT, T.INT])), "r": m.Symbol("r", T.REAL), "s": m.Symbol("s", T.REAL)}


def build(env, family, d, share):
    """-> Boolean formula whose nesting depth grows with d"""
    m = env.formula_manager
    L = leaves(env)
    if family == "bool":
        t = L["a"]
        for k in range(d):
            o = t if share else (L["b"] if k % 2 else L["a"])
            t = m.And(t, m.Not(o)) if k % 2 else m.Or(m.Not(t), o)
        return t
    if family == "arith":
        t = L["i"]
        for k in range(d):
            o = t if share else L["j"]
            t = m.Plus(t, o) if k % 2 else m.Minus(m.Times(t, m.Int(2)), o)
        return m.LT(t, L["j"])
    if family == "times-div":
        t = L["r"]
        for k in range(d):
            o = t if share else L["s"]
            t = m.Times(m.Real(2), m.Minus(t, m.Div(o, m.Real(3))))
        return m.LT(t, L["s"])
    if family == "bv":
        t = L["x"]
        for k in range(d):
            o = t if share else L["y"]
            t = m.BVAdd(t, o) if k % 2 else m.BVXor(m.BVNot(t), o)
        return m.BVULT(t, L["y"])
    if family == "ite-bool":
        t = L["a"]
        for k in range(d):
            o = t if share else L["b"]
            t = m.Ite(L["b"], t, m.Not(o))
        return t
    if family == "ite-int":
        t = L["i"]
        for k in range(d):
            o = t if share else L["j"]
            t = m.Ite(m.LT(L["i"], L["j"]), t, m.Plus(o, m.Int(1)))
        return m.LT(t, L["j"])
    if family == "ite-bv":
        t = L["x"]
        for k in range(d):
            o = t if share else L["y"]
            t = m.Ite(L["a"], t, m.BVNot(o))
        # an operator whose constructor asks the nested ITE for its width
        return m.BVULT(m.BVAdd(t, L["y"]), L["y"])
    if family == "store":
        t = L["m"]
        for k in range(d):
            o = m.Select(t, L["i"]) if share else L["j"]
            t = m.Store(t, m.Plus(L["i"], m.Int(k)), o)
        return m.Equals(m.Select(t, L["j"]), L["i"])
    if family == "uf":
        t = L["i"]
        for k in range(d):
            o = t if share else L["j"]
            t = m.Function(L["f"], [t, o])
        return m.LT(t, L["j"])
    if family in ("retry-arith", "retry-bool"):
        # growing a formula with the usual "try one constructor, fall back to another" idiom: every level first attempts an
        # ill-sorted application of the term built so far (rejected by the type checker), then builds the well-sorted one
        t = L["i"] if family == "retry-arith" else L["a"]
        for k in range(d):
            o = t if share else (L["j"] if family == "retry-arith" else L["b"])
            try:
                if family == "retry-arith":
                    m.And(m.LT(t, o), m.Plus(t, L["a"]))
                else:
                    m.Equals(t, o)          # Equals on Booleans is rejected: callers fall back to Iff
            except Exception:
                pass
            if family == "retry-arith":
                t = m.Plus(t, o) if k % 2 else m.Minus(m.Times(t, m.Int(2)), o)
            else:
                t = m.Iff(t, m.Not(o)) if k % 2 else m.Or(m.Not(t), o)
        return m.LT(t, L["j"]) if family == "retry-arith" else t
    if family == "str":
        # every string operator, each level using the previous one several times
        t = L["u"]
        for k in range(d):
            o = t if share else L["v"]
            n = m.StrLength(o)
            sel = k % 4
            if sel == 0:
                t = m.StrReplace(t, o, m.StrCharAt(o, n))
            elif sel == 1:
                t = m.StrConcat(m.StrSubstr(t, m.StrIndexOf(t, o, m.Int(0)), n), o)
            elif sel == 2:
                t = m.Ite(m.And(m.StrContains(t, o), m.StrPrefixOf(o, t)), t, m.IntToStr(m.Plus(m.StrToInt(t), n)))
            else:
                t = m.Ite(m.StrSuffixOf(t, o), m.StrConcat(t, o), t)
        return m.Equals(t, L["v"])
    if family == "int-div":
        t = L["i"]
        for k in range(d):
            o = t if share else L["j"]
            t = m.Div(m.Div(t, L["j"]), o) if k % 2 else m.Plus(m.Div(o, m.Int(3)), t)
        return m.LT(t, L["j"])
    if family == "bv-misc":
        t = L["x"]
        for k in range(d):
            o = t if share else L["y"]
            sel = k % 4
            if sel == 0:
                t = m.BVConcat(m.BVExtract(t, 0, 3), m.BVExtract(o, 4, 7))
            elif sel == 1:
                t = m.BVUDiv(m.BVRol(t, 1), m.BVRor(o, 2))
            elif sel == 2:
                t = m.BVExtract(m.BVMul(m.BVZExt(t, 4), m.BVSExt(o, 4)), 2, 9)
            else:
                t = m.Ite(m.BVSLT(t, o), m.BVURem(t, o), m.BVAShr(m.BVNeg(t), m.BVLShl(o, L["y"])))
        return m.BVULT(t, L["y"])
    raise ValueError(family)


def dag_nodes(f):
    """number of distinct sub-terms, iteratively (this runs inside the stack-depth probe)"""
    seen = set()
    todo = [f]
    while todo:
        t = todo.pop()
        if t in seen:
            continue
        seen.add(t)
        todo.extend(t.args())
    return len(seen)


def service(env, name, f):
    """returns a thunk performing the service on formula f"""
    import io
    m = env.formula_manager
    L = leaves(env)
    if name == "simplify":
        return lambda: f.simplify()
    if name == "substitute":
        return lambda: f.substitute({L["a"]: L["b"], L["i"]: m.Plus(L["j"], m.Int(1)), L["x"]: L["y"], L["u"]: m.StrConcat(L["v"], L["v"])})
    if name == "freevars":
        return lambda: f.get_free_variables()
    if name == "atoms":
        return lambda: f.get_atoms()
    if name == "logic":
        from pysmt.oracles import get_logic
        return lambda: get_logic(f, env)
    if name == "types":
        return lambda: env.typeso.get_types(f)
    if name == "qf":
        return lambda: env.qfo.is_qf(f)
    if name == "size-dag":
        return lambda: f.size(1)
    if name == "nnf":
        from pysmt.rewritings import nnf
        return lambda: nnf(f, env)
    if name == "prenex":
        from pysmt.rewritings import prenex_normal_form
        return lambda: prenex_normal_form(f, env)
    if name == "aig":
        from pysmt.rewritings import aig
        return lambda: aig(f, env)
    if name == "times-distributor":
        from pysmt.rewritings import TimesDistributor
        return lambda: TimesDistributor(env).walk(f)
    if name == "dagprint-parse":
        from pysmt.smtlib.parser import SmtLibParser
        from pysmt.smtlib.script import smtlibscript_from_formula

        def run():
            buf = io.StringIO()
            smtlibscript_from_formula(f).serialize(buf, daggify=True)
            text = buf.getvalue()
            # the DAG text itself must be linear in the DAG (no operand copied per use)
            nodes = dag_nodes(f)
            if len(text) > 120 * nodes + 400:
                raise Budget("DAG printer wrote %d characters for a DAG of %d nodes" % (len(text), nodes))
            g = SmtLibParser(env).get_script(io.StringIO(text)).get_last_formula()
            return g
        return run
    raise ValueError(name)


def applicable(family, svc):
    if svc in ("nnf", "prenex", "aig", "atoms"):
        return True
    if svc == "times-distributor":
        return family in ("arith", "times-div")
    if svc == "dagprint-parse":
        return True
    return True


class Budget(Exception):
    pass


class Counter(object):
    def __init__(self, limit=None):
        self.pops = 0
        self.creates = 0
        self.limit = limit

    def tick(self):
        if self.limit is not None and (self.pops > self.limit or self.creates > self.limit):
            raise Budget("more than %d walker steps / constructions" % self.limit)


def with_time_budget(thunk, seconds):
    """run thunk; raise Budget if it does not finish within the wall-clock budget (work inside a single callback,
    e.g. flattening an exponentially large argument list, is not visible to the step counters)"""
    import signal

    def on_alarm(signum, frame):
        raise Budget("did not finish within %.0f s" % seconds)
    old = signal.signal(signal.SIGALRM, on_alarm)
    signal.setitimer(signal.ITIMER_REAL, seconds)
    try:
        return thunk()
    finally:
        signal.setitimer(signal.ITIMER_REAL, 0)
        signal.signal(signal.SIGALRM, old)


def counted(thunk, limit=None):
    """run thunk counting DagWalker work-stack pops and node constructions"""
    from unittest import mock
    from pysmt.walkers.dag import DagWalker
    from pysmt.formula import FormulaManager
    c = Counter(limit)
    o1, o2, o3 = DagWalker._compute_node_result, DagWalker._push_with_children_to_stack, FormulaManager.create_node

    def w1(self, formula, **kw):
        c.pops += 1
        c.tick()
        return o1(self, formula, **kw)

    def w2(self, formula, **kw):
        c.pops += 1
        c.tick()
        return o2(self, formula, **kw)

    def w3(self, *a, **kw):
        c.creates += 1
        c.tick()
        return o3(self, *a, **kw)
    with mock.patch.object(DagWalker, "_compute_node_result", w1), mock.patch.object(DagWalker, "_push_with_children_to_stack", w2), \
            mock.patch.object(FormulaManager, "create_node", w3):
        # subclasses overriding the two methods (substituter, polarity CNF) call the base implementation or are counted
        # through create_node
        r = thunk()
    return c, r


def depth_now():
    d = 0
    fr = sys._getframe()
    while fr is not None:
        d += 1
        fr = fr.f_back
    return d


def headroom_needed(make_thunk, lo=8, hi=400):
    """smallest extra recursion head-room with which a fresh run of the service succeeds"""
    old = sys.getrecursionlimit()
    base = depth_now()
    hook = sys.unraisablehook
    sys.unraisablehook = lambda *a: None     # finalisers running under the lowered limit are irrelevant noise
    try:
        while lo < hi:
            mid = (lo + hi) // 2
            sys.setrecursionlimit(base + mid)
            try:
                make_thunk()()
                ok = True
            except RecursionError:
                ok = False
            finally:
                sys.setrecursionlimit(old)
            if ok:
                hi = mid
            else:
                lo = mid + 1
        return lo
    finally:
        sys.setrecursionlimit(old)
        sys.unraisablehook = hook


def chain_body(d, share, twin):
    dd = None
    for j in range(2, PARAMS.get("maxd", 40) + 1):
        if d == j:
            dd = j
            break
    if dd is None:
        return True
    sh = True if share else False
    if PARAMS.get("noshare"):
        sh = False
    family, svc = PARAMS["family"], PARAMS["service"]
    with NoTracing():
        ok = True
        why = ""

        def fresh(depth):
            env = new_env(dict_model=False)
            if svc == "construct":
                return lambda: build(env, family, depth, sh)
            f = build(env, family, depth, sh)
            return service(env, svc, f)
        # WORK
        env = new_env(dict_model=False)
        limit = 40 * (3 * dd + 20)
        try:
            if svc == "construct":
                c, f = with_time_budget(lambda: counted(lambda: build(env, family, dd, sh), limit), 10)
            else:
                f = with_time_budget(lambda: build(env, family, dd, sh), 10)
                c, _ = with_time_budget(lambda: counted(service(env, svc, f), limit), 10)
            nodes = len(rs.subterms(f))
            bound_pops = PARAMS.get("c", 24) * nodes + 60
            bound_creates = PARAMS.get("cc", 16) * nodes + 60
            if c.pops > bound_pops or c.creates > bound_creates:
                ok, why = False, "work: %d walker steps / %d constructions for a DAG of %d nodes (depth %d)" % (c.pops, c.creates, nodes, dd)
        except Budget as e:
            ok, why = False, "work: %s (depth %d, sharing %s)" % (e, dd, sh)
        # STACK (measured on the chain without sharing: the question is recursion over nesting)
        if ok and not sh:
            try:
                b2 = with_time_budget(lambda: headroom_needed(lambda: fresh(2)), 30)
                bd = with_time_budget(lambda: headroom_needed(lambda: fresh(dd)), 30)
                if bd > b2 + 12:
                    ok, why = False, "stack: needs %d frames of head-room at depth %d but %d at depth 2" % (bd, dd, b2)
            except Budget as e:
                ok, why = False, "stack probe: %s" % e
        PARAMS["_why"] = why
    if twin:
        return False
    return ok


def h_chain(d: int, share: bool) -> bool:
    """
    post: _
    """
    return chain_body(d, share, False)


def h_chain_twin(d: int, share: bool) -> bool:
    """
    post: _
    """
    return chain_body(d, share, True)


# ---- DAGs from symbolic child indices ----------------------------------------------------------------------------------------
def dag_body(c2, c3, c4, c5, c6, twin):
    idx = []
    for k, c in enumerate([c2, c3, c4, c5, c6]):
        lim = k + 2
        v = None
        for j in range(lim):
            if c == j:
                v = j
                break
        if v is None:
            return True
        idx.append(v)
    family, svc = PARAMS["family"], PARAMS["service"]
    with NoTracing():
        env = new_env(dict_model=False)
        m = env.formula_manager
        L = leaves(env)
        if family == "bool":
            nodes = [L["a"], L["b"]]
            for k, v in enumerate(idx):
                nodes.append(m.And(nodes[-1], m.Not(nodes[v])) if k % 2 else m.Or(m.Not(nodes[-1]), nodes[v]))
            f = nodes[-1]
        elif family == "arith":
            nodes = [L["i"], L["j"]]
            for k, v in enumerate(idx):
                nodes.append(m.Plus(nodes[-1], nodes[v]) if k % 2 else m.Times(m.Minus(nodes[-1], nodes[v]), m.Int(3)))
            f = m.LT(nodes[-1], L["j"])
        else:
            nodes = [L["x"], L["y"]]
            for k, v in enumerate(idx):
                nodes.append(m.BVAdd(nodes[-1], nodes[v]) if k % 2 else m.Ite(L["a"], nodes[-1], m.BVNot(nodes[v])))
            f = m.BVULT(nodes[-1], L["y"])
        c, _ = counted(service(env, svc, f))
        n = len(rs.subterms(f))
        ok = c.pops <= PARAMS.get("c", 24) * n + 60 and c.creates <= PARAMS.get("cc", 16) * n + 60
    if twin:
        return False
    return ok


def h_dag(c2: int, c3: int, c4: int, c5: int, c6: int) -> bool:
    """
    post: _
    """
    return dag_body(c2, c3, c4, c5, c6, False)


def h_dag_twin(c2: int, c3: int, c4: int, c5: int, c6: int) -> bool:
    """
    post: _
    """
    return dag_body(c2, c3, c4, c5, c6, True)


# ---- self- and cross-nesting of every operator, fully shared: the DAG printer / parser pair -----------------------------------------
def nest_ops(env):
    """name -> (sort, builder(t, o)): an operator application of the sort of t that uses t (and o) more than once"""
    m = env.formula_manager
    L = leaves(env)
    i0, one = m.Int(0), m.Int(1)
    ops = [
        ("and", "B", lambda t, o: m.And(t, m.Not(o))), ("or", "B", lambda t, o: m.Or(t, m.Not(o))), ("not", "B", lambda t, o: m.Not(m.And(t, o))),
        ("implies", "B", lambda t, o: m.Implies(t, o)), ("iff", "B", lambda t, o: m.Iff(t, m.Not(o))), ("ite-b", "B", lambda t, o: m.Ite(t, o, m.Not(o))),
        ("forall", "B", lambda t, o: m.ForAll([L["j"]], m.Or(t, o))), ("exists", "B", lambda t, o: m.Exists([L["b"]], m.And(t, o))),
        ("lt", "B", lambda t, o: m.LT(m.Ite(t, L["i"], L["j"]), m.Ite(o, L["j"], L["i"]))),
        ("equals-i", "B", lambda t, o: m.Equals(m.Ite(t, L["i"], L["j"]), m.Ite(o, L["j"], L["i"]))),
        ("plus", "I", lambda t, o: m.Plus(t, o)), ("minus", "I", lambda t, o: m.Minus(t, m.Plus(o, one))), ("times", "I", lambda t, o: m.Times(t, o)),
        ("div-int", "I", lambda t, o: m.Div(m.Div(t, L["j"]), o)), ("ite-i", "I", lambda t, o: m.Ite(m.LT(t, o), t, o)),
        ("uf", "I", lambda t, o: m.Function(L["f"], [t, o])), ("select", "I", lambda t, o: m.Select(m.Store(L["m"], t, o), o)),
        ("strlen", "I", lambda t, o: m.StrLength(m.StrConcat(m.IntToStr(t), m.IntToStr(o)))),
        ("strindexof", "I", lambda t, o: m.StrIndexOf(m.IntToStr(t), m.IntToStr(o), t)),
        ("strtoint", "I", lambda t, o: m.Plus(m.StrToInt(m.IntToStr(t)), m.StrToInt(m.IntToStr(o)))),
        ("bv2nat", "I", lambda t, o: m.BVToNatural(m.Ite(m.LT(t, o), L["x"], L["y"]))),
        ("plus-r", "R", lambda t, o: m.Plus(t, o)), ("times-r", "R", lambda t, o: m.Times(t, o)), ("div-r", "R", lambda t, o: m.Div(m.Div(t, L["s"]), o)),
        ("toreal", "R", lambda t, o: m.Plus(m.ToReal(m.Ite(m.LT(t, o), L["i"], L["j"])), t)), ("pow", "R", lambda t, o: m.Plus(m.Pow(t, m.Real(2)), o)),
        ("strreplace", "S", lambda t, o: m.StrReplace(t, o, t)), ("strconcat", "S", lambda t, o: m.StrConcat(t, o)),
        ("strsubstr", "S", lambda t, o: m.StrSubstr(t, m.StrLength(o), m.StrLength(t))), ("strcharat", "S", lambda t, o: m.StrCharAt(m.StrConcat(t, o), i0)),
        ("inttostr", "S", lambda t, o: m.IntToStr(m.Plus(m.StrLength(t), m.StrLength(o)))),
        ("strcontains", "S", lambda t, o: m.Ite(m.StrContains(t, o), t, o)), ("strprefixof", "S", lambda t, o: m.Ite(m.StrPrefixOf(t, o), o, t)),
        ("strsuffixof", "S", lambda t, o: m.Ite(m.StrSuffixOf(o, t), t, o)),
        ("bvadd", "V", lambda t, o: m.BVAdd(t, o)), ("bvmul", "V", lambda t, o: m.BVMul(t, o)), ("bvsub", "V", lambda t, o: m.BVSub(t, o)),
        ("bvand", "V", lambda t, o: m.BVAnd(t, m.BVNot(o))), ("bvor", "V", lambda t, o: m.BVOr(t, m.BVNeg(o))), ("bvxor", "V", lambda t, o: m.BVXor(t, o)),
        ("bvudiv", "V", lambda t, o: m.BVUDiv(t, o)), ("bvurem", "V", lambda t, o: m.BVURem(t, o)), ("bvsdiv", "V", lambda t, o: m.BVSDiv(t, o)),
        ("bvsrem", "V", lambda t, o: m.BVSRem(t, o)), ("bvlshl", "V", lambda t, o: m.BVLShl(t, o)), ("bvlshr", "V", lambda t, o: m.BVLShr(t, o)),
        ("bvashr", "V", lambda t, o: m.BVAShr(t, o)), ("bvconcat-extract", "V", lambda t, o: m.BVConcat(m.BVExtract(t, 0, 3), m.BVExtract(o, 4, 7))),
        ("bvrol-ror", "V", lambda t, o: m.BVXor(m.BVRol(t, 1), m.BVRor(o, 2))), ("bvzext", "V", lambda t, o: m.BVExtract(m.BVZExt(t, 4), 2, 9)),
        ("bvsext", "V", lambda t, o: m.BVExtract(m.BVAdd(m.BVSExt(t, 4), m.BVSExt(o, 4)), 0, 7)), ("bvcomp", "V", lambda t, o: m.BVConcat(m.BVComp(t, o), m.BVExtract(t, 0, 6))),
        ("bvult", "V", lambda t, o: m.Ite(m.BVULT(t, o), t, o)), ("bvsle", "V", lambda t, o: m.Ite(m.BVSLE(t, o), o, t)),
        # a sub-term used both outside and inside a binder
        ("share-across-forall", "B", lambda t, o: m.And(t, m.ForAll([L["j"]], m.Or(o, m.LT(L["j"], L["i"]))))),
        ("share-across-exists", "B", lambda t, o: m.Or(m.Not(t), m.Exists([L["b"]], m.And(o, L["b"])))),
        ("store", "A", lambda t, o: m.Store(t, m.Select(o, L["i"]), m.Select(t, L["j"]))),
        ("array-eq", "A", lambda t, o: m.Ite(m.Equals(t, o), t, m.Store(o, L["i"], L["j"]))),
    ]
    return ops


def nest_body(oi, oj, d, twin):
    with NoTracing():
        env0 = new_env(dict_model=False)
        names = [(n, srt) for n, srt, _ in nest_ops(env0)]
    mode = PARAMS.get("mode", "plain")
    ci = None
    for k in range(len(names)):
        if oi == k:
            ci = k
            break
    if ci is None:
        return True
    if names[ci][0].startswith("share-across") != (mode != "plain"):
        return True                # cross-binder sharing has its own conditions (first operator is the cross-binder one)
    cj = None
    if PARAMS.get("self_only"):
        if oj != ci:
            return True
        cj = ci
    else:
        for k in range(len(names)):
            if names[k][1] == names[ci][1] and (mode != "plain" or not names[k][0].startswith("share-across")):
                if oj == k:
                    cj = k
                    break
        if cj is None:
            return True
    dd = None
    for k in range(PARAMS.get("mind", 2), PARAMS.get("maxd", 12) + 1):
        if d == k:
            dd = k
            break
    if dd is None:
        return True
    with NoTracing():
        import io
        from pysmt.smtlib.printers import SmtDagPrinter
        from pysmt.smtlib.parser import SmtLibParser
        from pysmt.smtlib.script import smtlibscript_from_formula
        env = new_env(dict_model=False)
        m = env.formula_manager
        L = leaves(env)
        ops = nest_ops(env)
        srt = ops[ci][1]
        leaf = {"B": L["a"], "I": L["i"], "R": L["r"], "S": L["u"], "V": L["x"], "A": L["m"]}[srt]
        other = {"B": L["b"], "I": L["j"], "R": L["s"], "S": L["v"], "V": L["y"], "A": L["m"]}[srt]
        t = leaf
        for k in range(dd):
            b = ops[ci][2] if k % 2 == 0 else ops[cj][2]
            t = b(t, t)            # full sharing: the tree is exponential, the DAG linear
        f = t if srt == "B" else m.Equals(t, other)
        ok = True
        why = ""
        try:
            def work():
                buf = io.StringIO()
                SmtDagPrinter(buf).printer(f)
                return buf.getvalue()
            text = with_time_budget(work, 20)
            n = dag_nodes(f)
            if mode != "cross-roundtrip" and len(text) > 120 * n + 400:
                ok, why = False, "DAG printer wrote %d characters for a DAG of %d nodes" % (len(text), n)
            if ok and mode != "cross-size" and names[ci][0] != "pow" and names[cj][0] != "pow":
                decl = "".join("(declare-fun %s %s)\n" % (s.symbol_name(), s.symbol_type().as_smtlib()) for s in f.get_free_variables())
                c, g = with_time_budget(lambda: counted(lambda: SmtLibParser(env).get_script(io.StringIO(decl + "(assert %s)" % text)).get_last_formula(),
                                                        40 * (24 * n + 60)), 20)
                if g is not f:
                    ok, why = False, "parse(print(f)) is not f"
                elif mode == "plain" and c.creates > 16 * n + 60:
                    ok, why = False, "parser made %d node constructions for a DAG of %d nodes" % (c.creates, n)
        except Budget as e:
            ok, why = False, "budget: %s" % e
        PARAMS["_why"] = why
    if twin:
        return False
    return ok


def h_nest(oi: int, oj: int, d: int) -> bool:
    """
    post: _
    """
    return nest_body(oi, oj, d, False)


def h_nest_twin(oi: int, oj: int, d: int) -> bool:
    """
    post: _
    """
    return nest_body(oi, oj, d, True)
