"""C02 - model evaluation returns the exact value (engine XH, symbolic assigned values).

One CrossHair condition per (operator, width): f = op(x1..xn) over symbols, assignment {xi -> Const(vi)} with
every vi a symbolic value; the real EagerModel.get_value / satisfies must give the constant that the
reference evaluator computes.  Second family: nested pairs op1(op2(x,y),z).  Third: partial assignments.
"""
import json

from engine import core
from engine.xh import driver as xh

LEVEL = "model_checking"

MOD = "props.xh_fold"

LINEAR_BV = ["BVAnd", "BVOr", "BVXor", "BVAdd", "BVSub", "BVLShl", "BVLShr", "BVAShr", "BVComp", "BVULT", "BVULE",
             "BVSLT", "BVSLE", "Equals", "BVNot", "BVNeg", "BVToNatural", "BVConcat", "Ite/V"]
NONLIN_BV = ["BVMul", "BVUDiv", "BVURem", "BVSDiv", "BVSRem", "BVSMod"]
BITSTR_BV = ["BVExtract", "BVRol", "BVRor", "BVZExt", "BVSExt"]
# Div/I is a float-free kernel since the fix of walk_div; kept in the list (a float() reintroduced there is caught by tv-ground
# on 2^53-sized constants, see C01 bigint family)
ARITH = ["Plus/I", "Minus/I", "Times/I", "LE/I", "LT/I", "Equals/I", "Div/I", "ToReal", "Pow/I",
         "Plus/R", "Minus/R", "Times/R", "LE/R", "LT/R", "Equals/R", "Div/R", "Pow/R"]
BOOL = ["And", "Or", "Implies", "Iff", "Not", "Ite/I", "Ite/B"]
STR = ["StrLength", "StrToInt", "IntToStr", "StrConcat", "StrContains", "StrPrefixOf", "StrSuffixOf", "Equals/S",
       "StrCharAt", "StrIndexOf", "StrSubstr", "StrReplace"]


def obligations(tier, fn="h_model_eval"):
    obl = []
    t = 30.0 if tier == "quick" else 150.0
    lw = (1, 2, 4) if tier == "quick" else (1, 2, 3, 4, 6, 8)
    nw = (1, 2, 3) if tier == "quick" else (1, 2, 3, 4)
    bw = (1, 3) if tier == "quick" else (1, 2, 3, 4, 5)
    for o in LINEAR_BV:
        for w in lw:
            obl.append((o, {"op": o, "w": w, "w2": 2}, t))
    for o in NONLIN_BV:
        for w in nw:
            if o == "BVSMod" and w > (2 if tier == "quick" else 3):
                continue        # the derived smod term (nested ITEs over urem) does not finish at larger widths
            obl.append((o, {"op": o, "w": w}, t * 2))
    for o in BITSTR_BV:
        for w in bw:
            obl.append((o, {"op": o, "w": w}, t * 2))
    for o in ARITH:
        obl.append((o, {"op": o, "qbox": 2 if tier == "quick" else 3}, t * 2))
    for o in BOOL:
        obl.append((o, {"op": o, "w": 2}, t))
    for o in STR:
        p = {"op": o, "strlen": 2 if tier == "quick" else 3}
        if o == "IntToStr":
            p["ibox"] = (-3, 120)           # str(int) realises: enumerated inside the box
        if o in ("StrSubstr", "StrIndexOf", "StrCharAt"):
            p["ibox"] = (-3, 5)
        obl.append((o, p, t * 2))
    return [(MOD, fn, tt, dict(p, name="%s/w%s" % (n, p.get("w", "-")))) for n, p, tt in obl]


def signature(params, args):
    return "model-eval/%s" % params["op"]


def run_xh_family(run, family, jobs, describe, sig_fn, replay_kind):
    """Runs CrossHair jobs; confirmed -> discharged, refuted -> replay, else inconclusive."""
    results = xh.run_many(jobs)
    for r in results:
        p = r["params"]
        name = p.get("name", r["fn"])
        run.evaluations += 1
        if r["verdict"] == "confirmed":
            run.ok(family, 1, queries=1, solver_s=r["t"])
            run.nontrivial.add(name)
            run.sample({"family": family, "obligation": name, "params": p, "verdict": "Confirmed over all paths",
                        "seconds": round(r["t"], 1)}, cap=10)
        elif r["verdict"] == "refuted" and r.get("args") is not None:
            run.violation(family, name, {"kind": replay_kind, "fn": r["fn"], "params": p, "args": r["args"],
                                         "kwargs": r.get("kwargs") or {}},
                          sig_fn(p, r["args"]), describe(p, r), queries=1, solver_s=r["t"])
        elif r["verdict"] == "error":
            run.harness_error("%s %s: %s" % (family, name, r["message"][-600:]))
        else:
            run.inconc(family, name, r["message"][:200], queries=1, solver_s=r["t"])
    return results


def replay_call(data):
    """Natively re-run the harness body on the concrete counterexample (no CrossHair, no dict model)."""
    import importlib
    from unittest import mock
    mod = importlib.import_module(MOD if "mod" not in data else data["mod"])
    mod.PARAMS.clear()
    mod.PARAMS.update(data["params"])
    import engine.xh.model as model

    def native_env(dict_model=True):
        from pysmt.environment import Environment, push_env
        env = Environment()
        env.enable_div_by_0 = True
        env.enable_infix_notation = True
        push_env(env)
        return env
    with mock.patch.object(mod, "new_env", native_env):
        fn = getattr(mod, data["fn"])
        try:
            ok = fn(*data["args"], **data.get("kwargs", {}))
        except Exception as e:
            return True, "harness raises natively: %r" % (e,)
    if ok:
        return False, "harness returns True natively on %r" % (data["args"],)
    return True, "%s(%s) with params %s returns False natively" % (data["fn"], data["args"], data["params"])


def replay(data):
    if data.get("kind") == "ground":
        return replay_ground(data)
    return replay_call(data)


def twin_check(run, family, jobs):
    """Reachability twins: each must come back refuted, otherwise the obligation family is vacuous."""
    twins = [(m, f + "_twin", 20.0, p) for (m, f, t, p) in jobs]
    res = xh.run_many(twins)
    bad = [r["params"].get("name") for r in res if r["verdict"] != "refuted"]
    run.extra.setdefault("reachability_twins", {})[family] = {"checked": len(res), "unreachable": bad}
    for b in bad:
        run.inconc(family, "%s(twin)" % b, "reachability twin did not reach the comparison: obligation may be vacuous")


# ---- TV families: ground evaluation of grammar terms (array-valued results, nested operators, partial models) ----------
def gen_ground(env, tier):
    from engine.tv.grammar import Grammar, dedup
    from engine.ref import refstruct as rs
    g = Grammar(env, widths=(3,) if tier == "quick" else (1, 2, 4), quantifiers=False, uf=False)
    l1 = dedup(g.level1())
    l2 = dedup(g.level2(l1))
    forms = [t for _, t in l1] + [t for _, t in l2][::(3 if tier == "quick" else 1)]
    out = []
    for f in forms:
        fv = sorted(rs.free_vars(f), key=lambda x: x.symbol_name())
        if not fv:
            out.append((f, (), "total"))
            continue
        for variant in (0, 1, 2):
            asg = []
            for k, sym in enumerate(fv):
                cs = g.const.get(sym.symbol_type(), [])
                if not cs:
                    asg = None
                    break
                asg.append((sym, cs[(variant + k * (variant + 1)) % len(cs)]))
            if asg is None:
                break
            out.append((f, tuple(asg), "total"))
        # partial assignment: first symbol only (completion on / off)
        if len(fv) >= 2:
            cs = g.const.get(fv[0].symbol_type(), [])
            if cs:
                out.append((f, ((fv[0], cs[1 % len(cs)]),), "partial-completion"))
                out.append((f, ((fv[0], cs[1 % len(cs)]),), "partial-nocompletion"))
    return out


def check_ground(env, inst, timeout_ms=5000):
    import z3
    from pysmt.solvers.eager import EagerModel
    from engine import blueprint as bp
    from engine.ref import refstruct as rs
    from engine.ref.tr_z3 import Z3Tr, Untranslatable
    from engine.tv import driver as tv
    f, asg, mode = inst
    name = "ground-" + mode
    rp = {"kind": "ground", "formula": bp.to_bp(f), "asg": [[bp.to_bp(k), bp.to_bp(v)] for k, v in asg], "mode": mode}
    model = EagerModel(dict(asg), env)
    if mode == "partial-completion":
        # documented defaults exist for Bool / Int / Real / BV only
        for sym in rs.free_vars(f):
            ty = sym.symbol_type()
            if sym not in dict(asg) and not (ty.is_bool_type() or ty.is_int_type() or ty.is_real_type() or ty.is_bv_type()):
                return {"name": name, "status": "ok", "skipped": True}
    try:
        v = model.get_value(f, model_completion=(mode != "partial-nocompletion"))
    except Exception as e:
        if mode == "partial-nocompletion":
            return {"name": name, "status": "ok", "nontrivial": True}      # raising is allowed without completion
        # an evaluated Int/Real division by zero leaves a non-constant term: allowed to raise (unconstrained)
        if any(t.node_type() == 62 for t in rs.subterms(f)):
            return {"name": name, "status": "ok", "skipped": True}
        return {"name": name, "status": "viol", "signature": "model-eval/raises:%s/%s" % (type(e).__name__, rs.shape(f)),
                "describe": "EagerModel(%s).get_value(%s) raises %r" % (dict(asg), f.serialize()[:200], e), "replay": rp}
    if not v.is_constant():
        return {"name": name, "status": "viol", "signature": "model-eval/nonconstant/%s" % rs.shape(f),
                "describe": "get_value(%s) = %s is not a constant" % (f.serialize()[:200], v.serialize()[:200]), "replay": rp}
    if v.get_type() != f.get_type():
        return {"name": name, "status": "viol", "signature": "model-eval/type/%s" % rs.shape(f),
                "describe": "get_value(%s) = %s has type %s" % (f.serialize()[:200], v.serialize()[:100], v.get_type()), "replay": rp}
    tr = Z3Tr()
    try:
        zf, zv = tr.tr(f), tr.tr(v)
        prem = [tr.tr(k) == tr.tr(c) for k, c in asg]
        if mode == "partial-completion":
            m = env.formula_manager
            for sym in rs.free_vars(f):
                if sym not in dict(asg):
                    ty = sym.symbol_type()
                    d = m.Bool(False) if ty.is_bool_type() else m.Int(0) if ty.is_int_type() else \
                        m.Real(0) if ty.is_real_type() else m.BV(0, ty.width) if ty.is_bv_type() else None
                    if d is None:
                        return {"name": name, "status": "ok", "skipped": True}
                    prem.append(tr.tr(sym) == tr.tr(d))
    except Untranslatable as e:
        return {"name": name, "status": "inconc", "reason": str(e)}
    st, mo, dt = tv.check_valid(zf == zv, timeout_ms, premises=prem + tr.defined)
    res = {"name": name, "status": "ok", "queried": True, "t": dt, "nontrivial": True}
    if st == "unsat":
        ok_sat = True
        if f.get_type().is_bool_type() and mode in ("total", "partial-completion"):
            # satisfies completes a partial model the same way get_value does
            try:
                ok_sat = (model.satisfies(f) == v.is_true())
            except Exception:
                ok_sat = False
        if not ok_sat:
            return {"name": name, "status": "viol", "signature": "model-eval/satisfies/%s" % rs.shape(f),
                    "describe": "satisfies(%s) disagrees with the value %s" % (f.serialize()[:200], v), "replay": rp}
        res["sample"] = {"formula": f.serialize()[:120], "assignment": {str(k): str(c) for k, c in asg}, "mode": mode,
                         "value": v.serialize()[:80], "verdict": "z3: value is the one the formula denotes"}
        return res
    if st == "sat":
        return {"name": name, "status": "viol", "signature": "model-eval/value/%s" % rs.shape(f), "queried": True, "t": dt,
                "describe": "EagerModel(%s).get_value(%s) = %s is not the denoted value (%s)" %
                            ({str(k): str(c) for k, c in asg}, f.serialize()[:200], v.serialize()[:100], mode), "replay": rp}
    return {"name": name + ":" + f.serialize()[:80], "status": "inconc", "reason": "unknown %s" % mo, "queried": True, "t": dt}


def _register():
    from engine.tv import driver as tv
    tv.register("tv-ground", gen_ground, check_ground)


_register()


def replay_ground(data):
    from engine import blueprint as bp
    from engine.tv import driver as tv
    env = tv.fresh_env()
    f = bp.from_bp(data["formula"], env)
    asg = tuple((bp.from_bp(k, env), bp.from_bp(v, env)) for k, v in data["asg"])
    r = check_ground(env, (f, asg, data["mode"]), 20000)
    if r["status"] == "viol":
        return True, r["describe"]
    return False, "status=%s %s" % (r["status"], r.get("reason", ""))


def run(run, only=None):
    run.functions = [{"module": "pysmt/solvers/eager.py, pysmt/solvers/solver.py, pysmt/substituter.py, pysmt/simplifier.py",
                      "what": "EagerModel.get_value/_complete_model, Model.satisfies, substitute + simplify folding",
                      "sha1": core.src_sha("pysmt/solvers/eager.py", "pysmt/solvers/solver.py", "pysmt/simplifier.py",
                                           "pysmt/substituter.py", "pysmt/fnode.py", "pysmt/utils.py")}]
    jobs = obligations(run.tier)
    if only:
        jobs = [j for j in jobs if j[3]["op"] in only or "eval" in only]
    run.bounds = {"BV widths": "linear ops 1,2,4 (quick) / 1-4,6,8 (thorough); mul/div/rem 1-3 / 1-4; bit-string kernels "
                               "(extract/rotate/extend) 1,3 / 1-5 (realised: enumerated by the solver inside the width)",
                  "Int": "unbounded (z3 Int)", "Real": "numerator/denominator box +-2 (quick) / +-3",
                  "strings": "length <= 2 (quick) / 3", "indices": "extract/rotate/extend parameters in [-1, w+1]"}
    run.outside = ["BV widths above the listed ones", "strings longer than the bound", "array-valued results",
                   "rationals outside the box", "nested operator pairs beyond family 2"]
    run.assumptions = ["SymKeyDict models Python's dict for value-keyed tables", "bit-op plugin (Int2BV on a 24-bit window)",
                       "reference evaluator engine/ref/refeval.py"]

    def describe(p, r):
        return "EagerModel.get_value on %s with assigned values %r disagrees with the reference evaluator" % (p["op"], r["args"])
    if not only or "tv-ground" in only:
        from engine.tv import driver as tv
        tv.run_family(run, "tv-ground", run.tier)
        run.bounds["tv-ground"] = ("C01 grammar terms of every sort (level 1 complete, level 2 stride; incl. array-valued "
                                   "results and store chains) x 3 boundary-constant assignments + partial assignments with "
                                   "and without completion; z3 decides 'value == denotation' (and, without completion, "
                                   "for every completion)")
    if only and "tv-ground" in only and len(only) == 1:
        return
    run_xh_family(run, "xh-model-eval", jobs, describe, signature, "xh")
    twin_check(run, "xh-model-eval", jobs[::7])
    run.extra["states"] = run.obligations
    run.extra["rule"] = "one obligation = one CrossHair condition (operator x width) explored over all paths"
