"""C20 - work is linear in DAG size and independent of nesting depth (bounded form; engine XH).

Claimed: for nesting depths 2..40 (symbolic) and DAGs from symbolic child indices, each service performs at most
c*|DAG|+c0 walker steps / node constructions (sharing included: tree size up to 2^40), and needs no more interpreter
stack at depth d than at depth 2 (+12 frames).  NOT claimed: depth >= 20000 under the default recursion limit and
asymptotic linearity - bound-free statements outside any bounded solver check.
"""
from engine import core

LEVEL = "model_checking"


def replay(data):
    from props.c02 import replay_call
    d = dict(data)
    d["mod"] = "props.c20_xh"
    return replay_call(d)


def run(run, only=None):
    from props import c20_xh
    from props.c02 import run_xh_family, twin_check
    run.functions = [{"module": "pysmt/walkers/dag.py, pysmt/formula.py, pysmt/fnode.py, pysmt/smtlib/printers.py, parser.py",
                      "what": "DagWalker work stack + memoisation (all env-level walkers and rewriters), create_node type check, "
                              "bv_width, SmtDagPrinter + SmtLibParser", "sha1": core.src_sha("pysmt/walkers/dag.py", "pysmt/formula.py",
                                                                                          "pysmt/fnode.py", "pysmt/smtlib/printers.py",
                                                                                          "pysmt/smtlib/parser/parser.py", "pysmt/oracles.py")}]
    quick = run.tier == "quick"
    maxd = 40
    fams = c20_xh.FAMILIES
    svcs = c20_xh.SERVICES
    if quick:
        fams = ["bool", "arith", "bv", "ite-bv", "store", "times-div"]
    run.bounds = {"depth": "2..%d (symbolic), chains with and without full sharing (tree size 2^d)" % maxd,
                  "families": fams + (["str", "int-div", "bv-misc (8 services each)"] if quick else []),
                  "printer output": "DAG text <= 120*|DAG|+400 characters", "services": svcs, "work bound": "24*|DAG|+60 walker steps, 16*|DAG|+60 node constructions",
                  "stack bound": "head-room at depth d <= head-room at depth 2 + 12 frames (recursion limit lowered around the call)",
                  "dags": "5 further nodes whose second child is a symbolic index into the earlier nodes (720 sharing patterns)"}
    run.outside = ["depth >= 20000 under the default recursion limit (bound-free)", "asymptotic linearity",
                   "TimesDistributor on shared sums (its output is inherently exponential)"]
    t = 200.0 if quick else 900.0
    jobs = []
    extra_fams = ["str", "int-div", "bv-misc", "retry-arith", "retry-bool"]
    for fam in fams + (extra_fams if quick else []):
        for svc in svcs:
            if not c20_xh.applicable(fam, svc):
                continue
            if quick and fam in extra_fams and svc not in ("construct", "simplify", "substitute", "logic", "types", "size-dag",
                                                           "dagprint-parse", "atoms"):
                continue
            if fam.startswith("retry-") and svc not in ("construct", "simplify"):
                continue
            if svc == "times-distributor" and fam != "arith":
                continue
            jobs.append(("props.c20_xh", "h_chain", t, {"family": fam, "service": svc, "maxd": maxd, "noshare": svc == "times-distributor",
                                                        "name": "chain/%s/%s" % (fam, svc)}))
    for fam in ("bool", "arith", "bv"):
        for svc in (("simplify", "atoms", "logic", "nnf", "dagprint-parse") if quick else svcs):
            if svc in ("times-distributor", "construct"):
                continue            # the DAG is built before the counters start: there is no "construct" service for this family
            jobs.append(("props.c20_xh", "h_dag", t, {"family": fam, "service": svc, "name": "dag/%s/%s" % (fam, svc)}))
    # every operator nested in itself / in another operator of its sort with full sharing: DAG printer output and parser work
    jobs.append(("props.c20_xh", "h_nest", t * 2, {"family": "nest", "service": "print-self", "mode": "plain", "self_only": True, "maxd": 12, "mind": 9 if quick else 2,
                                                   "name": "nest/self"}))
    jobs.append(("props.c20_xh", "h_nest", t * 4, {"family": "nest", "service": "print-pairs", "mode": "plain", "maxd": 12 if not quick else 10,
                                                   "mind": 10, "name": "nest/pairs"}))
    jobs.append(("props.c20_xh", "h_nest", t * 2, {"family": "nest", "service": "print-cross-binder-roundtrip", "mode": "cross-roundtrip",
                                                   "maxd": 5, "mind": 4, "name": "nest/cross-binder-roundtrip"}))
    jobs.append(("props.c20_xh", "h_nest", t * 2, {"family": "nest", "service": "print-cross-binder-size", "mode": "cross-size", "maxd": 12, "mind": 11,
                                                   "name": "nest/cross-binder-size"}))
    if only:
        jobs = [j for j in jobs if any(o in j[3]["name"] for o in only)]

    def describe(p, r):
        return "%s at depth/sharing %r: super-linear work or stack growth with nesting" % (p["name"], r["args"])
    run_xh_family(run, "xh-work", jobs, describe, lambda p, a: "work/%s/%s" % (p["family"], p["service"]), "xh")
    twin_check(run, "xh-work", jobs[::9])
    run.extra["states"] = len(jobs) * 78
