"""C16 - scripts and incremental solvers track exactly the live assertions (engine XH, symbolic command codes)."""
from engine import core

LEVEL = "model_checking"


def replay(data):
    from props.c02 import replay_call
    d = dict(data)
    d["mod"] = "props.c16_xh"
    return replay_call(d)


def run(run, only=None):
    from props import c16_xh
    from props.c02 import run_xh_family, twin_check
    run.functions = [{"module": "pysmt/solvers/solver.py, pysmt/decorators.py, pysmt/smtlib/script.py",
                      "what": "IncrementalTrackingSolver.add_assertion/push/pop/reset_assertions/assertions, Solver.is_sat/is_valid/"
                              "is_unsat, clear_pending_pop, SmtLibScript.get_last_formula(return_optimizations=True)",
                      "sha1": core.src_sha("pysmt/solvers/solver.py", "pysmt/decorators.py", "pysmt/smtlib/script.py")}]
    n = 3 if run.tier == "quick" else 4
    t = 240.0 if run.tier == "quick" else 1500.0
    run.bounds = {"solver histories": "all legal sequences of length %d over %s" % (n + 1, c16_xh.S_CMDS),
                  "script histories": "all legal sequences of length %d over %s" % (n + 1 if run.tier == "quick" else 5, c16_xh.P_CMDS),
                  "check point": "solver.assertions read once after the last command of every history (every prefix is itself a history: 'end' code); script result compared at the end"}
    run.outside = ["sequences longer than the bound", "named assertions / unsat-core bookkeeping"]
    run.assumptions = ["reference assertion stack RefStack (props/c16_xh.py) is the SMT-LIB semantics",
                       "the brute-force stub is wired like the native solvers (@clear_pending_pop on the proxies)"]
    jobs = []
    if not only or "solver" in only:
        for k, nm in enumerate(c16_xh.S_CMDS):
            if run.tier == "quick" and nm not in c16_xh.S_REDUCED + ["push2", "is_valid"]:
                continue
            if nm in ("pop1", "pop2"):
                continue            # never legal as the first command
            # quick: 4 further commands over the reduced alphabet (7 commands + end); thorough: full alphabet
            jobs.append(("props.c16_xh", "h_solver", t * 2, {"first": k, "len": 4, "reduced": run.tier == "quick",
                                                             "name": "solver/%s+4%s" % (nm, "r" if run.tier == "quick" else "")}))
    if not only or "script" in only:
        for k, nm in enumerate(c16_xh.P_CMDS):
            if run.tier == "quick" and nm not in c16_xh.P_REDUCED:
                continue
            if nm in ("pop1", "pop2"):
                continue            # never legal as the first command
            if run.tier == "quick":
                jobs.append(("props.c16_xh", "h_script", t, {"first": k, "len": n, "reduced": True, "name": "script/%s+%dr" % (nm, n)}))
                continue
            # thorough: the first TWO commands are fixed per condition (16^3 paths each instead of 16^4)
            for k2, nm2 in enumerate(c16_xh.P_CMDS):
                if (nm2 == "pop2" and nm != "push2") or (nm2 == "pop1" and nm not in ("push1", "push2")):
                    continue        # never legal after this first command: the condition would be vacuous
                jobs.append(("props.c16_xh", "h_script", 600.0, {"first": k, "second": k2, "len": 3, "reduced": False,
                                                                 "name": "script/%s,%s+3" % (nm, nm2)}))

    step_jobs = []
    if not only or "state-step" in only:
        for k, nm in enumerate(c16_xh.S_CMDS):
            step_jobs.append(("props.c16_xh", "h_state_step", 300.0, {"cmd": k, "name": "state-step/%s" % nm}))

    def describe(p, r):
        cmds = c16_xh.S_CMDS if "solver" in p["name"] else c16_xh.P_CMDS
        rest = ((c16_xh.S_REDUCED if p.get("reduced") else cmds) + ["end"]) if "solver" in p["name"] else \
            (c16_xh.P_REDUCED if p.get("reduced") else cmds)
        seq = [cmds[p["first"]]] + ([cmds[p["second"]]] if "second" in p else []) + \
            [rest[c] if 0 <= c < len(rest) else "?" for c in (r["args"] or [])[:p["len"]]]
        return "command sequence %s: reported assertions/goals differ from the SMT-LIB assertion stack" % seq

    def sig(p, a):
        cmds = c16_xh.S_CMDS if "solver" in p["name"] else c16_xh.P_CMDS
        rest = ((c16_xh.S_REDUCED if p.get("reduced") else cmds) + ["end"]) if "solver" in p["name"] else \
            (c16_xh.P_REDUCED if p.get("reduced") else cmds)
        seq = [cmds[p["first"]]] + ([cmds[p["second"]]] if "second" in p else []) + \
            [rest[c] if 0 <= c < len(rest) else "?" for c in (a or [])[:p["len"]]]
        return "stack/%s/%s" % ("solver" if "solver" in p["name"] else "script", ",".join(seq))
    run_xh_family(run, "xh-history", jobs, describe, sig, "xh")
    twin_check(run, "xh-history", jobs[::7])
    if step_jobs:
        run_xh_family(run, "xh-state-step", step_jobs,
                      lambda p, r: "from the tracker state (frame sizes, depth, stale points, pending pop) = %r the command %s breaks the "
                                   "representation invariant / the reported assertions" % (r["args"], p["name"].split("/")[1]),
                      lambda p, a: "stack/state-step/%s" % p["name"].split("/")[1], "xh")
        twin_check(run, "xh-state-step", step_jobs[::5])
        run.bounds["state step"] = ("inductive step: every tracker state with <= 3 frames of <= 2 assertions, <= 2 stale backtrack points left "
                                    "by a reset, with or without a pending one-shot pop (reached through a canonical history) x every command "
                                    "of %s: the post-state satisfies the same representation invariant w.r.t. the reference frames and "
                                    "reports their assertions - covers histories of ANY length whose states stay inside the bound" % c16_xh.S_CMDS)
        run.assumptions.append("the tracker's behaviour depends only on (_assertion_stack, live suffix of _backtrack_points, pending_pop, back-end "
                               "frames): the state abstraction of the inductive step")
    run.extra["states"] = len(jobs) * (15 ** n)
