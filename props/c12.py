"""C12 - formula analyses (free symbols, atoms, qf-ness, sorts, sizes) are exact.

tv-def   : every analysis equals its independent recursive definition (engine/ref/refstruct.py + below) on the
           grammar instances (incl. shadowing quantifiers, function symbols, Boolean terms under theory terms).
tv-sem   : semantic clauses decided by z3 for all interpretations:
             - the value of f depends only on the symbols reported free;
             - the truth value of a quantifier-free f is a function of the reported atoms
               (two copies X, X' of the symbols:  AND_a (a(X) <-> a(X'))  =>  (f(X) <-> f(X'))  valid).
xh-dag   : DAGs given by symbolic child indices (CrossHair): every analysis vs the recursive definitions.
"""
import z3

from pysmt import operators as op
from pysmt import typing as T

from engine import blueprint as bp
from engine import core
from engine.ref import refstruct as rs
from engine.ref.tr_z3 import Z3Tr, Untranslatable
from engine.tv import driver as tv

LEVEL = "translation_validation"

BOOL_STRUCT = (op.AND, op.OR, op.NOT, op.IMPLIES, op.IFF, op.FORALL, op.EXISTS)


# ---- independent definitions --------------------------------------------------------------------------------------------
def is_bool(f):
    return f.get_type().is_bool_type()


def ref_atoms(f, memo=None):
    """atoms: Boolean sub-terms reached through Boolean structure (connectives, quantifiers, Boolean ITE) that are
    not themselves Boolean structure or Boolean constants."""
    if memo is None:
        memo = {}
    if f in memo:
        return memo[f]
    nt = f.node_type()
    if nt in BOOL_STRUCT:
        r = frozenset().union(*[ref_atoms(a, memo) for a in f.args()]) if f.args() else frozenset()
    elif nt == op.ITE and is_bool(f.arg(1)):
        r = frozenset().union(*[ref_atoms(a, memo) for a in f.args()])
    elif nt == op.BOOL_CONSTANT:
        r = frozenset()
    else:
        r = frozenset([f])
    memo[f] = r
    return r


def ref_types(f):
    """every sort declared or denoted in the formula: sorts of symbols (free, bound, function signatures), of
    constants and the index sort of array values; array sorts contribute their index and element sorts.
    (Result sorts of operator applications are derived, not part of the definition.)"""
    out = set()

    def add(ty):
        k = rs.ty_key(ty)
        if ty.is_function_type():
            for p in ty.param_types:
                add(p)
            add(ty.return_type)
            return
        out.add(k)
        if ty.is_array_type():
            add(ty.index_type)
            add(ty.elem_type)
    for t in rs.subterms(f):
        nt = t.node_type()
        if nt == op.SYMBOL:
            add(t.symbol_type())
        elif nt in (op.FORALL, op.EXISTS):
            for v in t.quantifier_vars():
                add(v.symbol_type())
        elif nt == op.FUNCTION:
            add(t.function_name().symbol_type())
        elif nt == op.ARRAY_VALUE:
            add(t.array_value_index_type())
        elif nt in op.CONSTANTS:
            add(t.get_type())
    return out


def ref_sizes(f):
    from pysmt.oracles import SizeOracle as SO
    sub = rs.subterms(f)

    def leaves(t, memo):
        if t in memo:
            return memo[t]
        r = 1 if not t.args() else sum(leaves(a, memo) for a in t.args())
        memo[t] = r
        return r

    def depth(t, memo):
        if t in memo:
            return memo[t]
        r = 1 + (max(depth(a, memo) for a in t.args()) if t.args() else 0)
        memo[t] = r
        return r

    def bool_dag(t, seen):
        if t in seen:
            return
        seen.add(t)
        if t.node_type() in op.RELATIONS:
            return
        for a in t.args():
            bool_dag(a, seen)
    bd = set()
    bool_dag(f, bd)
    return {SO.MEASURE_TREE_NODES: rs.tree_size(f), SO.MEASURE_DAG_NODES: len(sub), SO.MEASURE_LEAVES: leaves(f, {}),
            SO.MEASURE_DEPTH: depth(f, {}), SO.MEASURE_SYMBOLS: len([t for t in sub if t.node_type() == op.SYMBOL]),
            SO.MEASURE_BOOL_DAG: len(bd)}


# ---- instances -----------------------------------------------------------------------------------------------------------------
def gen(env, tier):
    from engine.tv.grammar import Grammar, dedup
    from engine.tv.boolgrammar import BoolGrammar
    g = Grammar(env, widths=(2,) if tier == "quick" else (1, 3))
    l1 = dedup(g.level1())
    l2 = dedup(g.level2(l1))
    forms = [t for _, t in l1] + [t for _, t in l2][::(4 if tier == "quick" else 1)]
    bg = BoolGrammar(env, quantifiers=True)
    forms += bg.levels("quick")
    m = g.m
    a, b = g.sym[g.B]
    i, j = g.sym[g.I]
    x, y = g.sym[g.bvs[0]]
    ai = g.sym[g.AII][0]
    ab = m.Symbol("abool", env.type_manager.ArrayType(T.INT, T.BOOL))
    fb = m.Symbol("fb", env.type_manager.FunctionType(T.INT, [T.BOOL]))
    U = env.type_manager.Type("U", 0)
    fu = m.Symbol("fu", env.type_manager.FunctionType(T.INT, [U]))
    uu = m.Symbol("uu", U)
    gz = m.Symbol("gz", env.type_manager.FunctionType(T.INT, [T.INT]))
    z = m.Symbol("z", T.INT)
    k = m.Symbol("k", T.INT)
    # Boolean terms under theory terms, quantifiers in non-Boolean positions, shadowing, array values with symbols
    forms += [
        m.LT(m.Ite(m.ForAll([i], m.LT(i, m.Plus(i, j))), m.Int(1), m.Int(2)), j),
        m.Equals(m.Function(fb, [m.Exists([i], m.Equals(i, j))]), m.Int(0)),
        m.Equals(m.Function(fb, [m.And(a, b)]), m.Function(fb, [m.Not(a)])),
        m.Select(ab, i), m.And(m.Select(ab, i), m.Not(m.Select(ab, j))), m.Select(m.Store(ab, i, m.And(a, b)), j),
        m.Equals(m.Select(m.Array(T.INT, i), m.Int(3)), m.Int(5)),
        m.Equals(m.Array(T.INT, m.Int(0), {m.Int(2): m.Function(gz, [z])}), ai),
        m.ForAll([i], m.Equals(m.Select(m.Array(T.INT, i, {m.Int(1): z}), k), i)),
        m.Equals(m.Function(fu, [uu]), i), m.ForAll([uu], m.LT(m.Function(fu, [uu]), i)),
        m.And(m.LT(i, j), m.ForAll([i], m.Exists([j], m.And(m.LT(i, j), m.Exists([i], m.LT(j, i)))))),
        m.Or(a, m.ForAll([a], m.Or(a, b))), m.ForAll([a, b], m.Exists([a], m.Iff(a, b))),
        m.Equals(m.BVComp(x, y), m.BV(1, 1)), m.Ite(m.LT(i, j), a, m.BVULT(x, y)),
    ]
    # heavy sharing: tree size exponential in DAG size
    sh = m.And(a, b)
    for _ in range(12):
        sh = m.Or(m.And(sh, a), m.And(sh, b))
    forms.append(sh)
    tt = m.Plus(i, j)
    for _ in range(10):
        tt = m.Plus(tt, tt)
    forms.append(m.LT(tt, i))
    seen = set()
    out = []
    for f in forms:
        if f not in seen:
            seen.add(f)
            out.append(f)
    return out


def check_def(env, f):
    from pysmt.oracles import SizeOracle as SO
    name = "def"
    rp = {"kind": "def", "formula": bp.to_bp(f)}
    try:
        fv = f.get_free_variables()
        exp = rs.free_vars(f)
        if set(fv) != set(exp):
            return viol(name, "analysis/free-vars/%s" % cls(f), "get_free_variables(%s) = %s, definition gives %s" %
                        (f.serialize()[:200], sorted(map(str, fv)), sorted(map(str, exp))), rp)
        qf = env.qfo.is_qf(f)
        if qf != (not rs.has_quantifier(f)):
            return viol(name, "analysis/is_qf/%s" % cls(f), "is_qf(%s) = %s" % (f.serialize()[:200], qf), rp)
        if is_bool(f):
            at = f.get_atoms()
            ra = ref_atoms(f)
            if set(at) != set(ra):
                return viol(name, "analysis/atoms/%s" % cls(f), "get_atoms(%s) = %s, definition gives %s" %
                            (f.serialize()[:200], sorted(map(str, at)), sorted(map(str, ra))), rp)
        sizes = ref_sizes(f)
        for meas, expv in sizes.items():
            got = f.size(meas)
            if got != expv:
                return viol(name, "analysis/size/%d" % meas, "size(%s, measure=%d) = %d, definition gives %d" %
                            (f.serialize()[:120], meas, got, expv), rp)
        if f.size() != sizes[SO.MEASURE_TREE_NODES]:
            return viol(name, "analysis/size/default", "size() default differs", rp)
        tys = set(rs.ty_key(t) for t in env.typeso.get_types(f))
        rt = ref_types(f)
        if not rt <= tys:
            return viol(name, "analysis/types/missing", "get_types(%s) = %s misses %s" %
                        (f.serialize()[:160], sorted(map(str, tys)), sorted(map(str, rt - tys))), rp)
        cust = set(rs.ty_key(t) for t in env.typeso.get_types(f, custom_only=True))
        rc = set(k for k in rt if isinstance(k, tuple) and k[0] == "Sort")
        if cust != rc:
            return viol(name, "analysis/types/custom", "get_types(custom_only) = %s, expected %s" % (cust, rc), rp)
    except Exception as e:
        return viol(name, "analysis/raises:%s/%s" % (type(e).__name__, cls(f)), "analysis of %s raises %r" % (f.serialize()[:200], e), rp)
    return {"name": name, "status": "ok", "nontrivial": True,
            "sample": {"formula": f.serialize()[:100], "free": sorted(map(str, fv)), "dag": sizes[SO.MEASURE_DAG_NODES],
                       "tree": sizes[SO.MEASURE_TREE_NODES]}}


def viol(name, sig, describe, rp):
    return {"name": name, "status": "viol", "signature": sig, "describe": describe, "replay": rp}


def cls(f):
    return op.op_to_str(f.node_type())


def check_sem(env, f, timeout_ms=5000):
    name = "sem"
    rp = {"kind": "sem", "formula": bp.to_bp(f)}
    if rs.tree_size(f) > 400:
        return {"name": name, "status": "ok", "skipped": True}
    try:
        fv = f.get_free_variables()
    except Exception as e:
        return viol(name, "analysis/raises:%s" % type(e).__name__, "%r" % (e,), rp)
    res = {"name": name, "status": "ok", "queries": 0, "t": 0.0, "nontrivial": True}
    # (a) closedness: the independent translation must succeed when only the reported symbols may occur free
    tr = Z3Tr(allowed_symbols=set(s.symbol_name() for s in fv))
    try:
        zf = tr.tr(f)
    except Untranslatable as e:
        if "not in the allowed set" in str(e):
            return viol(name, "analysis/free-vars/value-depends-on-unreported", "%s: %s" % (f.serialize()[:200], e), rp)
        return {"name": name, "status": "ok", "skipped": True}
    # (b) atom-determinacy for quantifier-free Boolean formulas
    if is_bool(f) and not rs.has_quantifier(f):
        try:
            atoms = list(f.get_atoms())
        except Exception as e:
            return viol(name, "analysis/raises:%s" % type(e).__name__, "%r" % (e,), rp)
        tr1 = Z3Tr()
        z1 = tr1.tr(f)
        a1 = [tr1.tr(a) for a in atoms]
        consts = [c for c in tr1.sym_cache.values()]
        prime = []
        for c in consts:
            if isinstance(c, z3.FuncDeclRef):
                prime.append((c, z3.Function(c.name() + "'", *([c.domain(k) for k in range(c.arity())] + [c.range()]))))
            else:
                prime.append((c, z3.Const(str(c) + "'", c.sort())))
        cpairs = [(c, p) for c, p in prime if not isinstance(c, z3.FuncDeclRef)]
        fpairs = [(c, p) for c, p in prime if isinstance(c, z3.FuncDeclRef)]

        def ren(e):
            r = z3.substitute(e, *cpairs) if cpairs else e
            if fpairs:
                r = z3.substitute_funs(r, *[(c, p(*[z3.Var(k, c.domain(k)) for k in range(c.arity())])) for c, p in fpairs])
            return r
        z2 = ren(z1)
        prem = [a == ren(a) for a in a1]
        st, mo, dt = tv.check_valid(z1 == z2, timeout_ms, premises=prem + tr1.defined + [ren(d) for d in tr1.defined])
        res["queries"] += 1
        res["t"] += dt
        if st == "sat":
            return viol(name, "analysis/atoms/not-determined/%s" % cls(f),
                        "truth value of %s is not a function of the reported atoms %s" % (f.serialize()[:200], [str(a) for a in atoms]), rp)
        if st != "unsat":
            return {"name": name + ":" + f.serialize()[:80], "status": "inconc", "reason": "unknown %s" % mo, "queries": 1, "t": dt}
        res["sample"] = {"formula": f.serialize()[:100], "atoms": [str(a)[:40] for a in atoms][:6],
                         "verdict": "truth value determined by the reported atoms (all interpretations)"}
    return res


tv.register("c12-def", gen, check_def)
tv.register("c12-sem", gen, check_sem)


def replay(data):
    if data.get("kind") == "xh":
        from props.c02 import replay_call
        d = dict(data)
        d["mod"] = "props.c12_xh"
        return replay_call(d)
    env = tv.fresh_env()
    f = bp.from_bp(data["formula"], env)
    r = check_def(env, f) if data["kind"] == "def" else check_sem(env, f, 20000)
    if r["status"] == "viol":
        return True, r["describe"]
    return False, "ok"


def run(run, only=None):
    run.functions = [{"module": "pysmt/oracles.py, pysmt/fnode.py", "what": "FreeVarsOracle, AtomsOracle, QuantifierOracle, "
                      "TypesOracle, SizeOracle (6 measures)", "sha1": core.src_sha("pysmt/oracles.py", "pysmt/fnode.py")}]
    run.bounds = {"formulas": "C01 grammar (all sorts, level 1 complete + level 2 stride), Boolean skeletons with nested and "
                              "shadowing quantifiers, quantifiers inside theory terms / UF arguments, Boolean array "
                              "elements, array values with symbolic defaults, sharing with tree size 2^12",
                  "interpretations": "all (z3) for the two semantic clauses"}
    run.outside = ["formulas deeper than the grammar", "semantic clauses on formulas with tree size > 400"]
    for fam in ("def", "sem"):
        if only and fam not in only:
            continue
        tv.run_family(run, "c12-" + fam, run.tier)
    if not only or "xh-dag" in only:
        try:
            from props import c12_xh
            c12_xh.run(run)
        except ImportError:
            pass
    run.extra["programs"] = run.evaluations
