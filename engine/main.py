"""Entry point: main.py <PID> [--tier quick|thorough] [--replay FILE] [--quiet]"""
import argparse
import importlib
import json
import os
import sys

HERE = os.path.dirname(os.path.abspath(__file__))
sys.path.insert(0, os.path.dirname(HERE))
from engine import core  # noqa: E402

core.setup_paths()


def main():
    ap = argparse.ArgumentParser()
    ap.add_argument("pid")
    ap.add_argument("--tier", default=os.environ.get("VERIF_TIER", "quick"))
    ap.add_argument("--replay")
    ap.add_argument("--quiet", action="store_true")
    ap.add_argument("--only", default=None, help="comma-separated family filter (development aid)")
    a = ap.parse_args()
    mod = importlib.import_module("props.%s" % a.pid.lower())
    if a.replay:
        with open(a.replay) as fh:
            rec = json.load(fh)
        reproduced, msg = mod.replay(rec["data"])
        if reproduced:
            if not a.quiet:
                print("VIOLATION property=%s replay=%s" % (a.pid, a.replay))
            print("  reproduced: " + msg)
            return 1
        print("  not reproduced: " + msg)
        return 0
    run = core.Run(a.pid, a.tier, mod.LEVEL)
    only = set(a.only.split(",")) if a.only else None
    try:
        mod.run(run, only)
    except Exception as e:  # harness failure is never a pass
        import traceback
        traceback.print_exc()
        run.harness_error("exception in check: %r" % (e,))
    return run.finish()


if __name__ == "__main__":
    sys.exit(main())
