"""AZ engine: a small interpreter over Python's `ast` that evaluates functions of /repo on a mixture of
concrete Python values and z3 terms, merging at returns (if -> ite) instead of forking.

Supported subset (anything else raises Unsupported -> the obligation is inconclusive, never a pass):
  statements : Assign (names / attributes), AugAssign-free, If/elif/else, Return, Assert, Raise, Expr, Pass
  expressions: Name, Attribute, Constant, BoolOp, UnaryOp(not), Compare (== != <= >= < > is/is not None),
               IfExp, Call (methods / constructors of interpreted classes, isinstance, len, any, all, sorted,
               str, and native calls when every argument is concrete), ListComp / GeneratorExp with one
               generator over a concrete sequence or a GuardedList, Subscript [0] on a GuardedList, Lambda
               (native, concrete arguments only)
Values: concrete Python objects, z3 BoolRef, SymObj (instance of an interpreted class: dict of fields),
        GuardedList (concrete elements each with a z3 guard = "is a member"), Raised (exception marker).
"""
import ast
import inspect
import textwrap

import z3


class Unsupported(Exception):
    pass


class SymObj(object):
    def __init__(self, cls, fields=None):
        self.cls = cls
        self.fields = dict(fields or {})

    def copy(self):
        return SymObj(self.cls, self.fields)

    def __repr__(self):
        return "SymObj(%s)" % self.cls.__name__


class GuardedList(object):
    def __init__(self, items):
        self.items = list(items)      # [(guard: z3 Bool or True, element)]

    def guards(self):
        return [g for g, _ in self.items]


class Raised(object):
    def __init__(self, exc_name):
        self.exc_name = exc_name

    def __repr__(self):
        return "Raised(%s)" % self.exc_name


class Choice(object):
    """a value that is one of several concrete elements: [(cond, element)] first true cond wins; else Raised"""
    def __init__(self, alts, otherwise):
        self.alts = alts
        self.otherwise = otherwise


def is_sym(v):
    return isinstance(v, z3.ExprRef)


def zbool(v):
    if is_sym(v):
        return v
    return z3.BoolVal(bool(v))


def z_and(*xs):
    xs = [x for x in xs if not (x is True)]
    if any(x is False for x in xs):
        return False
    if not xs:
        return True
    if all(not is_sym(x) for x in xs):
        return all(xs)
    return z3.And(*[zbool(x) for x in xs])


def z_or(*xs):
    xs = [x for x in xs if not (x is False)]
    if any(x is True for x in xs):
        return True
    if not xs:
        return False
    if all(not is_sym(x) for x in xs):
        return any(xs)
    return z3.Or(*[zbool(x) for x in xs])


def z_not(x):
    if is_sym(x):
        return z3.Not(x)
    return not x


def merge(c, a, b):
    """value of `a if c else b` for symbolic c"""
    if c is True:
        return a
    if c is False:
        return b
    if a is b:
        return a
    if isinstance(a, SymObj) and isinstance(b, SymObj) and a.cls is b.cls:
        keys = set(a.fields) | set(b.fields)
        return SymObj(a.cls, {k: merge(c, a.fields.get(k), b.fields.get(k)) for k in keys})
    if isinstance(a, (bool, z3.BoolRef)) and isinstance(b, (bool, z3.BoolRef)):
        return z3.If(c, zbool(a), zbool(b))
    if not is_sym(a) and not is_sym(b) and not isinstance(a, (SymObj, Raised, Choice)) and a == b:
        return a
    return Choice([(c, a)], b)


class Interp(object):
    def __init__(self, module, classes=()):
        self.module = module
        self.classes = {c.__name__: c for c in classes}
        self._src = {}
        self.assert_failures = []     # [(path condition, description)]
        self.calls = 0

    # ---- source access -------------------------------------------------------------------------------------
    def fdef(self, fn):
        key = getattr(fn, "__qualname__", repr(fn))
        if key not in self._src:
            src = textwrap.dedent(inspect.getsource(fn))
            tree = ast.parse(src)
            self._src[key] = tree.body[0]
        return self._src[key]

    # ---- calling ---------------------------------------------------------------------------------------------
    def call_function(self, fn, args, kwargs, pc=True):
        self.calls += 1
        node = self.fdef(fn)
        env = {}
        params = node.args
        names = [a.arg for a in params.args]
        defaults = params.defaults
        ndef = len(defaults)
        for i, nm in enumerate(names):
            if i < len(args):
                env[nm] = args[i]
            elif nm in kwargs:
                env[nm] = kwargs[nm]
            else:
                di = i - (len(names) - ndef)
                if di < 0:
                    raise Unsupported("missing argument %s" % nm)
                env[nm] = self.eval(defaults[di], {}, pc)
        if params.kwarg is not None:
            env[params.kwarg.arg] = {k: v for k, v in kwargs.items() if k not in names}
        glob = getattr(fn, "__globals__", vars(self.module))
        env["__globals__"] = glob
        r = self.run(node.body, 0, env, pc)
        return None if r is NORETURN else r

    def instantiate(self, cls, args, kwargs, pc):
        obj = SymObj(cls)
        init = cls.__dict__.get("__init__")
        if init is not None:
            self.call_function(init, [obj] + list(args), kwargs, pc)
        return obj

    # ---- statements ------------------------------------------------------------------------------------------------
    def run(self, stmts, i, env, pc):
        while i < len(stmts):
            s = stmts[i]
            if isinstance(s, ast.Expr):
                if not (isinstance(s.value, ast.Constant) and isinstance(s.value.value, str)):
                    self.eval(s.value, env, pc)
            elif isinstance(s, ast.Pass):
                pass
            elif isinstance(s, ast.Assign):
                v = self.eval(s.value, env, pc)
                for t in s.targets:
                    self.assign(t, v, env, pc)
            elif isinstance(s, ast.AnnAssign):
                if s.value is not None:
                    self.assign(s.target, self.eval(s.value, env, pc), env, pc)
            elif isinstance(s, ast.Return):
                return self.eval(s.value, env, pc) if s.value is not None else None
            elif isinstance(s, ast.Raise):
                nm = "Exception"
                if s.exc is not None:
                    f = s.exc.func if isinstance(s.exc, ast.Call) else s.exc
                    nm = getattr(f, "id", getattr(f, "attr", "Exception"))
                return Raised(nm)
            elif isinstance(s, ast.Assert):
                c = self.truth(self.eval(s.test, env, pc))
                bad = z_and(pc, z_not(c))
                if bad is not False:
                    self.assert_failures.append((bad, ast.unparse(s.test)))
            elif isinstance(s, ast.For):
                it = self.eval(s.iter, env, pc)
                if isinstance(it, (GuardedList, Choice)) or is_sym(it):
                    raise Unsupported("for over a symbolic iterable")
                body = []
                for k, x in enumerate(list(it)):
                    nm = "__for%d_%d" % (id(s) % 100000, k)
                    env[nm] = x
                    body.append(ast.Assign(targets=[s.target], value=ast.Name(id=nm, ctx=ast.Load())))
                    body.extend(s.body)
                if s.orelse:
                    raise Unsupported("for-else")
                return self.run(body + stmts[i + 1:], 0, env, pc)
            elif isinstance(s, ast.If):
                c = self.truth(self.eval(s.test, env, pc))
                rest = stmts[i + 1:]
                if c is True:
                    return self.run(list(s.body) + rest, 0, env, pc)
                if c is False:
                    return self.run(list(s.orelse) + rest, 0, env, pc)
                r1 = self.run(list(s.body) + rest, 0, self.fork(env), z_and(pc, c))
                r2 = self.run(list(s.orelse) + rest, 0, self.fork(env), z_and(pc, z_not(c)))
                return merge(c, r1, r2)
            else:
                raise Unsupported("statement %s" % type(s).__name__)
            i += 1
        return NORETURN

    def fork(self, env):
        """copy the environment, deep-copying interpreted objects (aliasing between variables is preserved)"""
        memo = {}

        def cp(v):
            if isinstance(v, SymObj):
                if id(v) not in memo:
                    memo[id(v)] = v.copy()
                return memo[id(v)]
            return v
        return {k: cp(v) for k, v in env.items()}

    def assign(self, target, v, env, pc):
        if isinstance(target, ast.Name):
            env[target.id] = v
        elif isinstance(target, ast.Attribute):
            obj = self.eval(target.value, env, pc)
            if not isinstance(obj, SymObj):
                raise Unsupported("attribute assignment on %r" % (obj,))
            obj.fields[target.attr] = v
        else:
            raise Unsupported("assignment target %s" % type(target).__name__)

    # ---- expressions -------------------------------------------------------------------------------------------------
    def truth(self, v):
        if is_sym(v):
            return z3.simplify(v) if False else v
        if isinstance(v, (SymObj,)):
            return True
        if isinstance(v, GuardedList):
            return z_or(*v.guards())
        return bool(v)

    def lookup(self, name, env):
        if name in env:
            return env[name]
        g = env.get("__globals__", {})
        if name in g:
            return g[name]
        import builtins
        if hasattr(builtins, name):
            return getattr(builtins, name)
        raise Unsupported("unknown name %s" % name)

    def concrete_expr(self, e, env):
        """every free name of the sub-expression is bound to a concrete value -> can be evaluated natively"""
        bound = set()
        for n in ast.walk(e):
            if isinstance(n, ast.comprehension):
                for t in ast.walk(n.target):
                    if isinstance(t, ast.Name):
                        bound.add(t.id)
            if isinstance(n, ast.Lambda):
                for a in n.args.args:
                    bound.add(a.arg)
        for n in ast.walk(e):
            if isinstance(n, ast.Name) and n.id not in bound and n.id in env:
                v = env[n.id]
                if is_sym(v) or isinstance(v, (SymObj, GuardedList, Choice, Raised)):
                    return False
                if isinstance(v, (list, tuple)) and any(is_sym(x) or isinstance(x, (SymObj, GuardedList, Choice)) for x in v):
                    return False
                if isinstance(v, tuple) and v and v[0] in ("bound", "len"):
                    return False
        return True

    def native(self, e, env):
        code = compile(ast.Expression(e), "<az-native>", "eval")
        loc = {k: v for k, v in env.items() if k != "__globals__"}
        g = dict(env.get("__globals__", {}))
        g.update(loc)
        return eval(code, g)

    def eval(self, e, env, pc):
        if isinstance(e, (ast.Call, ast.Compare, ast.GeneratorExp, ast.ListComp, ast.Subscript, ast.BinOp)) \
                and self.concrete_expr(e, env):
            return self.native(e, env)
        if isinstance(e, ast.Constant):
            return e.value
        if isinstance(e, ast.Name):
            return self.lookup(e.id, env)
        if isinstance(e, ast.Attribute):
            o = self.eval(e.value, env, pc)
            if isinstance(o, SymObj):
                if e.attr in o.fields:
                    return o.fields[e.attr]
                m = getattr(o.cls, e.attr, None)
                if m is None:
                    raise Unsupported("field %s of %s" % (e.attr, o.cls.__name__))
                return ("bound", m, o)
            return getattr(o, e.attr)
        if isinstance(e, ast.BoolOp):
            vals = [self.eval(v, env, pc) for v in e.values]
            return self.boolop(isinstance(e.op, ast.And), vals)
        if isinstance(e, ast.UnaryOp) and isinstance(e.op, ast.Not):
            return z_not(self.truth(self.eval(e.operand, env, pc)))
        if isinstance(e, ast.IfExp):
            c = self.truth(self.eval(e.test, env, pc))
            if c is True:
                return self.eval(e.body, env, pc)
            if c is False:
                return self.eval(e.orelse, env, pc)
            return merge(c, self.eval(e.body, env, z_and(pc, c)), self.eval(e.orelse, env, z_and(pc, z_not(c))))
        if isinstance(e, ast.Compare):
            left = self.eval(e.left, env, pc)
            res = True
            for o, rhs in zip(e.ops, e.comparators):
                right = self.eval(rhs, env, pc)
                res = z_and(res, self.compare(o, left, right, e, env, pc))
                left = right
            return res
        if isinstance(e, ast.Call):
            return self.call(e, env, pc)
        if isinstance(e, (ast.ListComp, ast.GeneratorExp)):
            return self.comprehension(e, env, pc)
        if isinstance(e, ast.Subscript):
            base = self.eval(e.value, env, pc)
            idx = self.eval(e.slice, env, pc)
            if isinstance(e.slice, ast.Slice) and isinstance(base, (list, tuple)):
                return base[idx]
            if isinstance(base, GuardedList):
                if idx != 0:
                    raise Unsupported("GuardedList[%r]" % (idx,))
                return Choice([(g, x) for g, x in base.items], Raised("IndexError"))
            return base[idx]
        if isinstance(e, ast.Slice):
            return slice(self.eval(e.lower, env, pc) if e.lower else None, self.eval(e.upper, env, pc) if e.upper else None,
                         self.eval(e.step, env, pc) if e.step else None)
        if isinstance(e, ast.Lambda):
            code = compile(ast.Expression(e), "<lambda>", "eval")
            return eval(code, dict(env.get("__globals__", {})))
        if isinstance(e, ast.Tuple):
            return tuple(self.eval(x, env, pc) for x in e.elts)
        if isinstance(e, ast.List):
            return [self.eval(x, env, pc) for x in e.elts]
        if isinstance(e, ast.BinOp) and isinstance(e.op, ast.Mod):
            l, r = self.eval(e.left, env, pc), self.eval(e.right, env, pc)
            if isinstance(l, str):
                return l            # message formatting: irrelevant to the verdict
            return l % r
        raise Unsupported("expression %s" % type(e).__name__)

    def boolop(self, is_and, vals):
        """Python's and/or return one of the operands; on mixtures with z3 Booleans only the truth matters here"""
        if all(not is_sym(v) and not isinstance(v, (SymObj, GuardedList)) for v in vals):
            r = vals[0]
            for v in vals[1:]:
                r = (r and v) if is_and else (r or v)
            return r
        ts = [self.truth(v) for v in vals]
        return z_and(*ts) if is_and else z_or(*ts)

    def compare(self, o, a, b, e, env, pc):
        if isinstance(o, (ast.Is, ast.IsNot)):
            if is_sym(a) or isinstance(a, SymObj) or is_sym(b) or isinstance(b, SymObj):
                same = (a is b)
                if b is None or a is None:
                    same = False
            else:
                same = a is b
            return same if isinstance(o, ast.Is) else (not same)
        if isinstance(a, SymObj) or isinstance(b, SymObj):
            opname = {ast.Eq: "__eq__", ast.NotEq: "__ne__", ast.LtE: "__le__", ast.GtE: "__ge__", ast.Lt: "__lt__",
                      ast.Gt: "__gt__"}.get(type(o))
            if opname is None:
                raise Unsupported("comparison on objects")
            subj, other = (a, b)
            if not isinstance(a, SymObj):
                raise Unsupported("reflected comparison")
            m = getattr(subj.cls, opname)
            return self.call_function(m, [subj, other], {}, pc)
        if is_sym(a) or is_sym(b):
            za, zb = zbool(a), zbool(b)
            if isinstance(o, ast.Eq):
                return za == zb
            if isinstance(o, ast.NotEq):
                return za != zb
            if isinstance(o, ast.LtE):          # False <= True : implication
                return z3.Implies(za, zb)
            if isinstance(o, ast.GtE):
                return z3.Implies(zb, za)
            if isinstance(o, ast.Lt):
                return z3.And(z3.Not(za), zb)
            if isinstance(o, ast.Gt):
                return z3.And(za, z3.Not(zb))
            raise Unsupported("comparison operator")
        import operator
        table = {ast.Eq: operator.eq, ast.NotEq: operator.ne, ast.LtE: operator.le, ast.GtE: operator.ge,
                 ast.Lt: operator.lt, ast.Gt: operator.gt, ast.In: lambda x, y: x in y,
                 ast.NotIn: lambda x, y: x not in y}
        if type(o) not in table:
            raise Unsupported("comparison operator")
        return table[type(o)](a, b)

    def comprehension(self, e, env, pc):
        if len(e.generators) != 1:
            raise Unsupported("nested comprehension")
        gen = e.generators[0]
        src = self.eval(gen.iter, env, pc)
        if isinstance(src, GuardedList):
            items = src.items
        else:
            items = [(True, x) for x in src]
        out = []
        for g, x in items:
            env2 = dict(env)
            self.assign(gen.target, x, env2, pc)
            cond = g
            for c in gen.ifs:
                cond = z_and(cond, self.truth(self.eval(c, env2, z_and(pc, cond))))
            if cond is False:
                continue
            out.append((cond, self.eval(e.elt, env2, z_and(pc, cond))))
        return GuardedList(out)

    def call(self, e, env, pc):
        fn = self.eval(e.func, env, pc)
        args = [self.eval(a, env, pc) for a in e.args]
        kwargs = {}
        for k in e.keywords:
            if k.arg is None:
                kwargs.update(self.eval(k.value, env, pc))
            else:
                kwargs[k.arg] = self.eval(k.value, env, pc)
        if isinstance(fn, tuple) and fn and fn[0] == "bound":
            return self.call_function(fn[1], [fn[2]] + args, kwargs, pc)
        if inspect.isclass(fn) and fn.__name__ in self.classes:
            return self.instantiate(fn, args, kwargs, pc)
        if fn is isinstance:
            o, c = args
            if isinstance(o, SymObj):
                return issubclass(o.cls, c)
            return isinstance(o, c)
        if fn is len and isinstance(args[0], GuardedList):
            return ("len", args[0])
        if fn in (any, all) and isinstance(args[0], GuardedList):
            gl = args[0]
            if fn is any:
                return z_or(*[z_and(g, self.truth(v)) for g, v in gl.items])
            return z_and(*[z_or(z_not(g), self.truth(v)) for g, v in gl.items])
        if fn is sorted and isinstance(args[0], GuardedList):
            key = kwargs.get("key", lambda x: x)
            return GuardedList(sorted(args[0].items, key=lambda gx: key(gx[1])))
        def symb(a):
            if isinstance(a, (list, tuple)):
                return any(symb(x) for x in a)
            return is_sym(a) or isinstance(a, (SymObj, GuardedList, Choice))
        symbolic = any(symb(a) for a in list(args) + list(kwargs.values()))
        if fn in (len, list, tuple) and not any(is_sym(a) or isinstance(a, (GuardedList, Choice)) for a in args):
            symbolic = False
        if not symbolic:
            if inspect.isfunction(fn) and getattr(fn, "__module__", None) == self.module.__name__ and False:
                return self.call_function(fn, args, kwargs, pc)
            return fn(*args, **kwargs)
        if inspect.isfunction(fn):
            return self.call_function(fn, args, kwargs, pc)
        if inspect.ismethod(fn):
            return self.call_function(fn.__func__, [fn.__self__] + args, kwargs, pc)
        raise Unsupported("call of %r with symbolic arguments" % (fn,))


NORETURN = object()


def patch_len_compare(interp):
    """len(GuardedList) compared with a small integer: handled in compare() through the ('len', gl) marker."""
    orig = interp.compare

    def compare(o, a, b, e, env, pc):
        if isinstance(a, tuple) and a and a[0] == "len" and isinstance(b, int):
            gs = [zbool(g) for g in a[1].guards()]
            if not gs:
                n = 0
                import operator
                return {ast.Eq: n == b, ast.NotEq: n != b}.get(type(o), None)
            if b == 0:
                none = z3.Not(z3.Or(*gs))
                return none if isinstance(o, ast.Eq) else z3.Not(none) if isinstance(o, ast.NotEq) else _unsup()
            if b == 1:
                one = z3.PbEq([(g, 1) for g in gs], 1)
                return one if isinstance(o, ast.Eq) else z3.Not(one) if isinstance(o, ast.NotEq) else _unsup()
            raise Unsupported("len compared with %d" % b)
        return orig(o, a, b, e, env, pc)
    interp.compare = compare
    return interp


def _unsup():
    raise Unsupported("len comparison operator")
