"""In-memory stand-in for an external SMT-LIB solver process: a STRICT reference solver.

It replaces (in the harness only) `Popen` and `TextIOWrapper` as seen from pysmt.smtlib.solver.  Every command
line written to stdin is parsed with an own s-expression reader, checked against SMT-LIB's scoping rules
(declarations live in the frame they were made in; reset-assertions removes them; a symbol must be declared
exactly once while in scope and before use; pop must not exceed the push depth; get-value only in sat mode) and
answered with `success`, `(error "...")`, `sat`/`unsat` (decided by z3 on the live assertions) or a get-value
reply evaluated in z3's model.  Replies are tagged with the command that caused them; reading from an empty
reply buffer (the real process would block forever) raises Desync.
"""
import z3


class Desync(Exception):
    pass


class Spin(BaseException):
    """the caller keeps reading a stream that is at end-of-file (a real run would never return).  BaseException: must not be swallowed
    by the `except Exception` handlers of the code under test."""


def read_sexprs(text):
    """-> (list of complete top-level s-expression strings, rest)"""
    out = []
    depth = 0
    start = None
    i = 0
    n = len(text)
    in_str = False
    in_q = False
    while i < n:
        c = text[i]
        if in_str:
            if c == '"':
                in_str = False
        elif in_q:
            if c == "|":
                in_q = False
        elif c == '"':
            in_str = True
        elif c == "|":
            in_q = True
        elif c == ";":
            while i < n and text[i] != "\n":
                i += 1
            continue
        elif c == "(":
            if depth == 0:
                start = i
            depth += 1
        elif c == ")":
            depth -= 1
            if depth == 0 and start is not None:
                out.append(text[start:i + 1])
                start = None
        i += 1
    rest = text[start:] if (start is not None and depth > 0) else ""
    return out, rest


def head_of(sexpr):
    body = sexpr[1:].lstrip()
    k = 0
    while k < len(body) and body[k] not in " \t\n()":
        k += 1
    return body[:k], body[k:].strip()[:-1].strip() if body.endswith(")") else body[k:].strip()


class StrictSolver(object):
    def __init__(self):
        self.frames = [self._frame()]
        self.mode = "start"          # start / sat / unsat / assert
        self.model = None
        self.log = []                # (tag, command, reply, legal)
        self.errors = []             # illegal commands seen
        self.options = {}

    @staticmethod
    def _frame():
        return {"decls": [], "names": set(), "sorts": set(), "asserts": []}

    def all_names(self):
        s = set()
        for f in self.frames:
            s |= f["names"]
        return s

    def prelude(self):
        return "\n".join(d for f in self.frames for d in f["decls"])

    def live_asserts(self):
        return [a for f in self.frames for a in f["asserts"]]

    def z3_asserts(self):
        text = self.prelude() + "\n" + "\n".join("(assert %s)" % a for a in self.live_asserts())
        return z3.parse_smt2_string(text)

    def error(self, msg, cmd):
        self.errors.append((cmd, msg))
        return '(error "%s")' % msg.replace('"', "'")

    def execute(self, cmd):
        name, rest = head_of(cmd)
        if name in ("set-option", "set-info"):
            return "success"
        if name == "set-logic":
            return "success"
        if name in ("declare-fun", "declare-const"):
            sym = self._first_symbol(rest)
            if sym in self.all_names():
                return self.error("symbol %s declared twice while in scope" % sym, cmd)
            try:
                z3.parse_smt2_string(self.prelude() + "\n" + cmd)
            except z3.Z3Exception as e:
                return self.error("bad declaration: %s" % str(e)[:80], cmd)
            self.frames[-1]["decls"].append(cmd)
            self.frames[-1]["names"].add(sym)
            return "success"
        if name == "declare-sort":
            sym = self._first_symbol(rest)
            if sym in self.all_names():
                return self.error("sort %s declared twice" % sym, cmd)
            self.frames[-1]["decls"].append(cmd)
            self.frames[-1]["names"].add(sym)
            return "success"
        if name == "assert":
            try:
                z3.parse_smt2_string(self.prelude() + "\n" + cmd)
            except z3.Z3Exception as e:
                return self.error("illegal assert (undeclared symbol or ill-sorted term): %s" % str(e)[:120], cmd)
            self.frames[-1]["asserts"].append(rest)
            self.mode = "assert"
            return "success"
        if name == "push":
            n = int(rest or "1")
            for _ in range(n):
                self.frames.append(self._frame())
            self.mode = "assert"
            return "success"
        if name == "pop":
            n = int(rest or "1")
            if n > len(self.frames) - 1:
                return self.error("pop %d exceeds the push depth %d" % (n, len(self.frames) - 1), cmd)
            for _ in range(n):
                self.frames.pop()
            self.mode = "assert"
            return "success"
        if name == "reset-assertions":
            self.frames = [self._frame()]
            self.mode = "assert"
            return "success"
        if name == "check-sat":
            s = z3.Solver()
            try:
                for a in self.z3_asserts():
                    s.add(a)
            except z3.Z3Exception as e:
                return self.error("internal: %s" % e, cmd)
            r = s.check()
            if r == z3.sat:
                self.model = s.model()
                self.mode = "sat"
                return "sat"
            self.model = None
            self.mode = "unsat"
            return "unsat" if r == z3.unsat else "unknown"
        if name == "get-value":
            if self.mode != "sat":
                return self.error("get-value outside sat mode", cmd)
            terms, _ = read_sexprs(rest[1:-1]) if rest.startswith("(") else ([], "")
            inner = rest[1:-1].strip()
            items = self._split_terms(inner)
            out = []
            for t in items:
                try:
                    e = z3.parse_smt2_string(self.prelude() + "\n(assert (= %s %s))" % (t, t))[0].arg(0)
                except z3.Z3Exception as ex:
                    return self.error("get-value of an unknown term %s" % t, cmd)
                v = self.model.eval(e, model_completion=True)
                out.append("(%s %s)" % (t, self._fmt(v)))
            return "(" + " ".join(out) + ")"
        if name == "exit":
            return "success"
        return self.error("unsupported command %s" % name, cmd)

    @staticmethod
    def _first_symbol(rest):
        rest = rest.strip()
        if rest.startswith("|"):
            return rest[:rest.index("|", 1) + 1]
        k = 0
        while k < len(rest) and rest[k] not in " \t\n()":
            k += 1
        return rest[:k]

    @staticmethod
    def _split_terms(inner):
        items = []
        i = 0
        n = len(inner)
        while i < n:
            if inner[i] in " \t\n":
                i += 1
                continue
            if inner[i] == "(":
                d = 0
                j = i
                while j < n:
                    if inner[j] == "(":
                        d += 1
                    elif inner[j] == ")":
                        d -= 1
                        if d == 0:
                            break
                    j += 1
                items.append(inner[i:j + 1])
                i = j + 1
            elif inner[i] == "|":
                j = inner.index("|", i + 1)
                items.append(inner[i:j + 1])
                i = j + 1
            else:
                j = i
                while j < n and inner[j] not in " \t\n()":
                    j += 1
                items.append(inner[i:j])
                i = j
        return items

    @staticmethod
    def _fmt(v):
        if z3.is_true(v):
            return "true"
        if z3.is_false(v):
            return "false"
        if z3.is_bv_value(v):
            return "#b" + format(v.as_long(), "0%db" % v.size())
        if z3.is_int_value(v):
            n = v.as_long()
            return str(n) if n >= 0 else "(- %d)" % (-n)
        return v.sexpr()


class FakeIn(object):
    def __init__(self, proc):
        self.proc = proc
        self.buf = ""

    def write(self, s):
        self.buf += s
        return len(s)

    def flush(self):
        cmds, rest = read_sexprs(self.buf)
        self.buf = rest
        for c in cmds:
            self.proc.on_command(c)

    def close(self):
        pass


class FakeOut(object):
    def __init__(self, proc):
        self.proc = proc

    def readline(self):
        p = self.proc
        if not p.out and p.dead:
            p.eof_reads += 1
            if p.eof_reads > 200:
                raise Spin("more than 200 reads at end-of-file: the reader does not notice that the solver process is gone")
            return ""
        if not p.out:
            raise Desync("read with no reply pending (a real solver process would block forever)")
        k = p.out.find("\n")
        if k < 0:
            line, p.out = p.out, ""
        else:
            line, p.out = p.out[:k + 1], p.out[k + 1:]
        p.reads.append(("line", line))
        return line

    def read(self, n=1):
        p = self.proc
        if not p.out and p.dead:
            p.eof_reads += 1
            if p.eof_reads > 200:
                raise Spin("more than 200 reads at end-of-file: the reader does not notice that the solver process is gone")
            return ""
        if not p.out:
            raise Desync("read with no reply pending (a real solver process would block forever)")
        ch, p.out = p.out[:n], p.out[n:]
        p.reads.append(("char", ch))
        return ch

    def close(self):
        pass


class FakeProcess(object):
    """Popen replacement"""
    instances = []

    def __init__(self, args, **kwargs):
        self.solver = StrictSolver()
        self.out = ""
        self.reads = []
        self.commands = []
        self.violations = []
        self.stdin = FakeIn(self)
        self.stdout = FakeOut(self)
        self.stderr = FakeOut(self)
        self.dead = False
        self.eof_reads = 0
        self.die_after = FakeProcess.DIE_AFTER        # number of commands answered before the process dies (None: never)
        self.broken_pipe = FakeProcess.BROKEN_PIPE    # after death: writes raise BrokenPipeError (True) / are swallowed (False)
        FakeProcess.instances.append(self)

    DIE_AFTER = None
    BROKEN_PIPE = False

    def on_command(self, cmd):
        if self.die_after is not None and len(self.commands) >= self.die_after:
            self.dead = True
        if self.dead:
            if self.broken_pipe:
                raise BrokenPipeError("solver process is gone")
            return
        if self.out.strip() != "":
            # the reply to an earlier command has not been (fully) consumed when the next command arrives
            self.violations.append("command %r sent while %r of the previous reply is unread" % (cmd[:60], self.out))
        reply = self.solver.execute(cmd)
        self.commands.append((cmd, reply))
        self.out += reply + "\n"

    def terminate(self):
        pass

    def wait(self, *a, **k):
        return 0


def identity_wrapper(x, *a, **k):
    return x
