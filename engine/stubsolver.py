"""A brute-force back-end plugged into pySMT's IncrementalTrackingSolver (the oracle is environment, not code
under test).  Wired like the native solver classes: the proxy methods carry @clear_pending_pop.

Satisfiability is decided by enumerating the finite domains of the free symbols (Bool, BV(w), and Int symbols
restricted to DOMAIN) and evaluating the assertions with the independent reference evaluator.
"""
import itertools

from pysmt.decorators import clear_pending_pop
from pysmt.solvers.solver import IncrementalTrackingSolver, Model
from pysmt.solvers.eager import EagerModel
from pysmt.solvers.options import SolverOptions

from engine.ref import refeval
from engine.ref import refstruct as rs


class StubOptions(SolverOptions):
    def __call__(self, solver):
        pass


def make_stub_class(int_domain=(-4, 4)):
    from pysmt import logics

    class BruteSolver(IncrementalTrackingSolver):
        LOGICS = list(logics.PYSMT_LOGICS)
        OptionsClass = StubOptions
        INT_DOMAIN = int_domain

        def __init__(self, environment, logic=None, **options):
            IncrementalTrackingSolver.__init__(self, environment=environment, logic=logic or logics.QF_AUFBVLIRA, **options)
            self.mgr = environment.formula_manager
            self.frames = [[]]
            self.model = None
            self.oracle_calls = 0
            self.prefer = "first"          # which satisfying assignment the oracle returns: first / last in enumeration order

        # -- proxies (decorated like pysmt/solvers/z3.py)
        @clear_pending_pop
        def _reset_assertions(self):
            self.frames = [[]]

        @clear_pending_pop
        def _add_assertion(self, formula, named=None):
            self.frames[-1].append(formula)
            return formula

        @clear_pending_pop
        def _push(self, levels=1):
            for _ in range(levels):
                self.frames.append([])

        @clear_pending_pop
        def _pop(self, levels=1):
            for _ in range(levels):
                self.frames.pop()

        def live(self):
            return [f for fr in self.frames for f in fr]

        def domain(self, s):
            ty = s.symbol_type()
            if ty.is_bool_type():
                return [False, True]
            if ty.is_bv_type():
                return list(range(2 ** ty.width))
            if ty.is_int_type():
                return list(range(self.INT_DOMAIN[0], self.INT_DOMAIN[1] + 1))
            raise NotImplementedError("stub domain for %s" % ty)

        @clear_pending_pop
        def _solve(self, assumptions=None):
            self.oracle_calls += 1
            fs = self.live() + list(assumptions or [])
            syms = sorted(set().union(*[rs.free_vars(f) for f in fs]) if fs else [], key=lambda s: s.symbol_name())
            doms = [self.domain(s) for s in syms]
            found = None
            for vals in itertools.product(*doms):
                interp = dict(zip(syms, vals))
                ok = True
                for f in fs:
                    if not refeval.evaluate(f, interp):
                        ok = False
                        break
                if ok:
                    found = interp
                    if self.prefer == "first":
                        break
            if found is None:
                self.model = None
                return False
            asg = {}
            for s, v in found.items():
                ty = s.symbol_type()
                asg[s] = self.mgr.Bool(v) if ty.is_bool_type() else self.mgr.BV(v, ty.width) if ty.is_bv_type() else self.mgr.Int(v)
            self.model = EagerModel(assignment=asg, environment=self.environment)
            return True

        def get_model(self):
            return self.model

        @clear_pending_pop
        def get_value(self, item):
            return self.model.get_value(item)

        def _exit(self):
            pass

    return BruteSolver
