"""Independent, three-valued typing reference for FormulaManager constructors.

reftype(name, sorts, payload) -> ("accept", result_sort) | ("reject",) | ("either",)
Sorts: "B" "I" "R" "S" ("V", w) ("A", index, elem) "U" (custom sort) "F" (unapplied function symbol Int->Int,
not a term).  'either' marks applications where pySMT documents a rule stricter than SMT-LIB (or where the
outcome is not fixed by the property): rejecting them is allowed, accepting them with the stated sort too.
"""


def is_bv(s):
    return isinstance(s, tuple) and s[0] == "V"


def is_arr(s):
    return isinstance(s, tuple) and s[0] == "A"


def term(s):
    return s != "F"


def acc(s):
    return ("accept", s)


REJ = ("reject",)
EITHER = ("either",)

BOOL_OPS = {"And", "Or", "Implies", "Iff", "Xor", "Not", "AtMostOne", "ExactlyOne"}
ARITH_OPS = {"Plus", "Minus", "Times", "Div"}
ARITH_REL = {"LE", "LT", "GE", "GT"}
BV_BIN = {"BVAnd", "BVOr", "BVXor", "BVAdd", "BVSub", "BVMul", "BVUDiv", "BVURem", "BVLShl", "BVLShr", "BVAShr", "BVSDiv",
          "BVSRem", "BVNand", "BVNor", "BVXnor", "BVSMod"}
BV_REL = {"BVULT", "BVULE", "BVUGT", "BVUGE", "BVSLT", "BVSLE", "BVSGT", "BVSGE"}
STR1 = {"StrLength": "I", "StrToInt": "I"}


def reftype(name, sorts, payload=None):
    s = list(sorts)
    if any(not term(x) for x in s):
        return REJ                                   # a function symbol is not a term
    if name in BOOL_OPS:
        return acc("B") if all(x == "B" for x in s) else REJ
    if name in ARITH_OPS:
        if all(x == "I" for x in s):
            return acc("I")
        if all(x == "R" for x in s):
            return acc("R")
        return REJ
    if name in ARITH_REL:
        return acc("B") if (s[0] == s[1] and s[0] in ("I", "R")) else REJ
    if name in ("Equals", "NotEquals"):
        if s[0] != s[1]:
            return REJ
        if s[0] == "B":
            return EITHER                            # pySMT asks for Iff on Booleans; SMT-LIB accepts =
        return acc("B")
    if name == "EqualsOrIff":
        return acc("B") if s[0] == s[1] else REJ
    if name in ("Min", "Max"):
        return acc(s[0]) if (all(x == s[0] for x in s) and s[0] in ("I", "R")) else REJ
    if name == "AllDifferent":
        return acc("B") if all(x == s[0] for x in s) else REJ
    if name == "Ite":
        return acc(s[1]) if (s[0] == "B" and s[1] == s[2]) else REJ
    if name == "ToReal":
        return acc("R") if s[0] in ("I", "R") else REJ
    if name in BV_BIN:
        return acc(s[0]) if (is_bv(s[0]) and s[0] == s[1]) else REJ
    if name == "BVComp":
        return acc(("V", 1)) if (is_bv(s[0]) and s[0] == s[1]) else REJ
    if name in BV_REL:
        return acc("B") if (is_bv(s[0]) and s[0] == s[1]) else REJ
    if name in ("BVNot", "BVNeg"):
        return acc(s[0]) if is_bv(s[0]) else REJ
    if name == "BVToNatural":
        return acc("I") if is_bv(s[0]) else REJ
    if name == "BVConcat":
        return acc(("V", s[0][1] + s[1][1])) if (is_bv(s[0]) and is_bv(s[1])) else REJ
    if name == "BVExtract":
        if not is_bv(s[0]):
            return REJ
        st, en = payload
        w = s[0][1]
        return acc(("V", en - st + 1)) if 0 <= st <= en < w else REJ
    if name in ("BVRol", "BVRor"):
        if not is_bv(s[0]):
            return REJ
        k = payload[0]
        w = s[0][1]
        if k < 0:
            return REJ
        if k > w:
            return EITHER                            # SMT-LIB reads the amount modulo the width; pySMT rejects
        return acc(s[0])
    if name in ("BVZExt", "BVSExt"):
        if not is_bv(s[0]):
            return REJ
        k = payload[0]
        return acc(("V", s[0][1] + k)) if k >= 0 else REJ
    if name == "BVRepeat":
        if not is_bv(s[0]):
            return REJ
        k = payload[0]
        return acc(("V", s[0][1] * k)) if k >= 1 else REJ
    if name == "Select":
        return acc(s[0][2]) if (is_arr(s[0]) and s[0][1] == s[1]) else REJ
    if name == "Store":
        return acc(s[0]) if (is_arr(s[0]) and s[0][1] == s[1] and s[0][2] == s[2]) else REJ
    if name in STR1:
        return acc(STR1[name]) if s[0] == "S" else REJ
    if name == "IntToStr":
        return acc("S") if s[0] == "I" else REJ
    if name in ("StrConcat", "StrReplace"):
        return acc("S") if all(x == "S" for x in s) else REJ
    if name in ("StrContains", "StrPrefixOf", "StrSuffixOf"):
        return acc("B") if all(x == "S" for x in s) else REJ
    if name == "StrCharAt":
        return acc("S") if s == ["S", "I"] else REJ
    if name == "StrIndexOf":
        return acc("I") if s == ["S", "S", "I"] else REJ
    if name == "StrSubstr":
        return acc("S") if s == ["S", "I", "I"] else REJ
    if name == "ApplyFII":                           # fii : Int x Int -> Int
        return acc("I") if s == ["I", "I"] else REJ
    if name == "ApplyFUB":                           # fub : U -> Bool
        return acc("B") if s == ["U"] else REJ
    if name in ("ForAll", "Exists"):
        return acc("B") if s[0] == "B" else REJ
    if name == "ArrayValue":                         # Array(index sort = sorts[0]'s sort, default, one assignment)
        idx_sort, default, key, val = s
        if key != idx_sort or val != default:
            return REJ
        return acc(("A", idx_sort, default))
    raise KeyError(name)
