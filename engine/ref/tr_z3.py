"""Independent FNode -> z3 translator (reference semantics = z3's native SMT-LIB operators).

Uses only FNode accessors (node_type, args, payload accessors, symbol name/type).  pySMT's own
solvers/z3.py converter is NOT used.  Division by zero (Int/Real) is collected as a definedness
side-condition so that callers can exclude such interpretations, as C01/C02 state.
"""
import z3
from fractions import Fraction

from pysmt import operators as op


class Untranslatable(Exception):
    pass


class Z3Tr(object):
    def __init__(self, ctx=None, allowed_symbols=None):
        self.ctx = ctx
        self.sym_cache = {}
        self.sort_cache = {}
        self.fun_cache = {}
        self.defined = []          # definedness conditions (divisor != 0), closed formulas
        self.allowed = allowed_symbols   # if not None: set of (name) allowed as free symbols
        self.seen_quant = False
        self._bound = []           # stack of dicts name->z3 const

    # ---- sorts -------------------------------------------------------------------------
    def sort(self, ty):
        key = str(ty) + "/" + ty.__class__.__name__
        if key in self.sort_cache:
            return self.sort_cache[key]
        if ty.is_bool_type():
            s = z3.BoolSort(self.ctx)
        elif ty.is_int_type():
            s = z3.IntSort(self.ctx)
        elif ty.is_real_type():
            s = z3.RealSort(self.ctx)
        elif ty.is_bv_type():
            s = z3.BitVecSort(ty.width, self.ctx)
        elif ty.is_string_type():
            s = z3.StringSort(self.ctx)
        elif ty.is_array_type():
            s = z3.ArraySort(self.sort(ty.index_type), self.sort(ty.elem_type))
        elif ty.is_function_type():
            raise Untranslatable("function type used as sort")
        else:
            if ty.args:
                raise Untranslatable("parametric custom sort")
            s = z3.DeclareSort(str(ty.basename), self.ctx)
        self.sort_cache[key] = s
        return s

    def symbol(self, f):
        name = f.symbol_name()
        ty = f.symbol_type()
        for scope in reversed(self._bound):
            if f in scope:
                return scope[f]
        if self.allowed is not None and name not in self.allowed:
            raise Untranslatable("free symbol %r not in the allowed set" % name)
        key = (name, str(ty))
        if key in self.sym_cache:
            return self.sym_cache[key]
        if ty.is_function_type():
            doms = [self.sort(p) for p in ty.param_types]
            c = z3.Function(name, *(doms + [self.sort(ty.return_type)]))
        else:
            c = z3.Const(name, self.sort(ty))
        self.sym_cache[key] = c
        return c

    # ---- terms -------------------------------------------------------------------------
    def tr(self, f):
        """Iterative post-order translation with memoisation (per binder context)."""
        return self._tr(f, {})

    def _tr(self, root, memo):
        stack = [(root, False)]
        while stack:
            f, done = stack.pop()
            if f in memo:
                continue
            nt = f.node_type()
            if nt in (op.FORALL, op.EXISTS):
                memo[f] = self._quant(f)
                continue
            if not done:
                stack.append((f, True))
                for a in f.args():
                    if a not in memo:
                        stack.append((a, False))
                continue
            memo[f] = self._node(f, [memo[a] for a in f.args()])
        return memo[root]

    def _quant(self, f):
        self.seen_quant = True
        vs = f.quantifier_vars()
        scope = {}
        for v in vs:
            # deterministic name: alpha-equal inputs give structurally equal z3 terms (inner binders are
            # abstracted first, so shadowing is handled by construction)
            scope[v] = z3.Const("\x01bound!" + v.symbol_name(), self.sort(v.symbol_type()))
        self._bound.append(scope)
        saved = self.defined
        self.defined = []
        try:
            body = self._tr(f.arg(0), {})
        finally:
            self._bound.pop()
            inner = self.defined
            self.defined = saved
        consts = list(scope.values())
        for d in inner:
            self.defined.append(z3.ForAll(consts, d))
        if f.node_type() == op.FORALL:
            return z3.ForAll(consts, body)
        return z3.Exists(consts, body)

    def const_value(self, f):
        nt = f.node_type()
        v = f.constant_value()
        if nt == op.BOOL_CONSTANT:
            return z3.BoolVal(bool(v), self.ctx)
        if nt == op.INT_CONSTANT:
            return z3.IntVal(int(v), self.ctx)
        if nt == op.REAL_CONSTANT:
            fr = Fraction(v)
            return z3.RealVal(str(fr.numerator) + "/" + str(fr.denominator), self.ctx)
        if nt == op.STR_CONSTANT:
            return z3.StringVal(v, self.ctx)
        if nt == op.BV_CONSTANT:
            return z3.BitVecVal(int(v), f.bv_width(), self.ctx)
        raise Untranslatable("constant kind %d" % nt)

    def _node(self, f, a):
        nt = f.node_type()
        if nt == op.SYMBOL:
            return self.symbol(f)
        if nt in op.CONSTANTS:
            return self.const_value(f)
        if nt == op.AND:
            return z3.And(*a) if a else z3.BoolVal(True)
        if nt == op.OR:
            return z3.Or(*a) if a else z3.BoolVal(False)
        if nt == op.NOT:
            return z3.Not(a[0])
        if nt == op.IMPLIES:
            return z3.Implies(a[0], a[1])
        if nt == op.IFF:
            return a[0] == a[1]
        if nt == op.FUNCTION:
            fn = self.symbol(f.function_name())
            return fn(*a)
        if nt == op.PLUS:
            r = a[0]
            for x in a[1:]:
                r = r + x
            return r
        if nt == op.MINUS:
            return a[0] - a[1]
        if nt == op.TIMES:
            r = a[0]
            for x in a[1:]:
                r = r * x
            return r
        if nt == op.DIV:
            self.defined.append(a[1] != 0)
            return a[0] / a[1]
        if nt == op.POW:
            e = f.arg(1)
            if not e.is_constant():
                raise Untranslatable("pow with non-constant exponent")
            ev = Fraction(e.constant_value())
            if ev.denominator != 1:
                raise Untranslatable("pow with rational exponent")
            n = int(ev)
            if n < 0:
                raise Untranslatable("pow with negative exponent")
            # pySMT's typing rule gives POW the sort Real whatever the base (type_checker.walk_pow):
            # an Int base denotes to_real(base^n).
            if n == 0:
                return z3.RealVal(1, self.ctx)
            r = a[0]
            for _ in range(n - 1):
                r = r * a[0]
            return z3.ToReal(r) if z3.is_int(r) else r
        if nt == op.LE:
            return a[0] <= a[1]
        if nt == op.LT:
            return a[0] < a[1]
        if nt == op.EQUALS:
            return a[0] == a[1]
        if nt == op.ITE:
            return z3.If(a[0], a[1], a[2])
        if nt == op.TOREAL:
            return z3.ToReal(a[0])
        # --- bit-vectors
        if nt == op.BV_NOT:
            return ~a[0]
        if nt == op.BV_AND:
            return a[0] & a[1]
        if nt == op.BV_OR:
            return a[0] | a[1]
        if nt == op.BV_XOR:
            return a[0] ^ a[1]
        if nt == op.BV_CONCAT:
            return z3.Concat(a[0], a[1])
        if nt == op.BV_EXTRACT:
            return z3.Extract(f.bv_extract_end(), f.bv_extract_start(), a[0])
        if nt == op.BV_ULT:
            return z3.ULT(a[0], a[1])
        if nt == op.BV_ULE:
            return z3.ULE(a[0], a[1])
        if nt == op.BV_NEG:
            return -a[0]
        if nt == op.BV_ADD:
            return a[0] + a[1]
        if nt == op.BV_SUB:
            return a[0] - a[1]
        if nt == op.BV_MUL:
            return a[0] * a[1]
        if nt == op.BV_UDIV:
            return z3.UDiv(a[0], a[1])
        if nt == op.BV_UREM:
            return z3.URem(a[0], a[1])
        if nt == op.BV_LSHL:
            return a[0] << a[1]
        if nt == op.BV_LSHR:
            return z3.LShR(a[0], a[1])
        if nt == op.BV_ROL:
            return z3.RotateLeft(a[0], f.bv_rotation_step())
        if nt == op.BV_ROR:
            return z3.RotateRight(a[0], f.bv_rotation_step())
        if nt == op.BV_ZEXT:
            return z3.ZeroExt(f.bv_extend_step(), a[0])
        if nt == op.BV_SEXT:
            return z3.SignExt(f.bv_extend_step(), a[0])
        if nt == op.BV_SLT:
            return a[0] < a[1]
        if nt == op.BV_SLE:
            return a[0] <= a[1]
        if nt == op.BV_COMP:
            return z3.If(a[0] == a[1], z3.BitVecVal(1, 1, self.ctx), z3.BitVecVal(0, 1, self.ctx))
        if nt == op.BV_SDIV:
            return a[0] / a[1]
        if nt == op.BV_SREM:
            return z3.SRem(a[0], a[1])
        if nt == op.BV_ASHR:
            return a[0] >> a[1]
        if nt == op.BV_TONATURAL:
            return z3.BV2Int(a[0], False)
        # --- strings
        if nt == op.STR_LENGTH:
            return z3.Length(a[0])
        if nt == op.STR_CONCAT:
            return z3.Concat(*a)
        if nt == op.STR_CONTAINS:
            return z3.Contains(a[0], a[1])
        if nt == op.STR_INDEXOF:
            return z3.IndexOf(a[0], a[1], a[2])
        if nt == op.STR_REPLACE:
            return z3.Replace(a[0], a[1], a[2])
        if nt == op.STR_SUBSTR:
            return z3.SubString(a[0], a[1], a[2])
        if nt == op.STR_PREFIXOF:
            return z3.PrefixOf(a[0], a[1])
        if nt == op.STR_SUFFIXOF:
            return z3.SuffixOf(a[0], a[1])
        if nt == op.STR_TO_INT:
            return z3.StrToInt(a[0])
        if nt == op.INT_TO_STR:
            return z3.IntToStr(a[0])
        if nt == op.STR_CHARAT:
            return z3.SubString(a[0], a[1], z3.IntVal(1, self.ctx))
        # --- arrays
        if nt == op.ARRAY_SELECT:
            return z3.Select(a[0], a[1])
        if nt == op.ARRAY_STORE:
            return z3.Store(a[0], a[1], a[2])
        if nt == op.ARRAY_VALUE:
            r = z3.K(self.sort(f.array_value_index_type()), a[0])
            for i in range(1, len(a), 2):
                r = z3.Store(r, a[i], a[i + 1])
            return r
        raise Untranslatable("operator %s" % op.op_to_str(nt))


def same_sort(x, y):
    return x.sort().eq(y.sort())


def differ(x, y):
    """z3 formula 'x and y have different values' (sort mismatch -> None)."""
    if not same_sort(x, y):
        return None
    return x != y
