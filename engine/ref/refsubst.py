"""Independent recursive definitions of the documented substitution strategies.

MGS (default): look a node up BEFORE rebuilding it (a key wins over its sub-terms).
MSS          : rebuild the node from its replaced children, THEN look the rebuilt node up.
Under a quantifier, keys mentioning one of its bound variables are dropped; binder lists and function
names are never replaced.  Rebuilding uses the public constructors (own table below), so constructor
normalisations (double negation, 1-ary and/or, ...) are part of the definition.
"""
from pysmt import operators as op

from engine.ref import refstruct as rs

SIMPLE = {
    op.AND: "And", op.OR: "Or", op.NOT: "Not", op.IMPLIES: "Implies", op.IFF: "Iff", op.PLUS: "Plus",
    op.MINUS: "Minus", op.TIMES: "Times", op.LE: "LE", op.LT: "LT", op.EQUALS: "Equals", op.ITE: "Ite",
    op.TOREAL: "ToReal", op.BV_NOT: "BVNot", op.BV_AND: "BVAnd", op.BV_OR: "BVOr", op.BV_XOR: "BVXor",
    op.BV_CONCAT: "BVConcat", op.BV_ULT: "BVULT", op.BV_ULE: "BVULE", op.BV_NEG: "BVNeg", op.BV_ADD: "BVAdd",
    op.BV_SUB: "BVSub", op.BV_MUL: "BVMul", op.BV_UDIV: "BVUDiv", op.BV_UREM: "BVURem", op.BV_LSHL: "BVLShl",
    op.BV_LSHR: "BVLShr", op.BV_SLT: "BVSLT", op.BV_SLE: "BVSLE", op.BV_COMP: "BVComp", op.BV_SDIV: "BVSDiv",
    op.BV_SREM: "BVSRem", op.BV_ASHR: "BVAShr", op.STR_LENGTH: "StrLength", op.STR_CONCAT: "StrConcat",
    op.STR_CONTAINS: "StrContains", op.STR_INDEXOF: "StrIndexOf", op.STR_REPLACE: "StrReplace",
    op.STR_SUBSTR: "StrSubstr", op.STR_PREFIXOF: "StrPrefixOf", op.STR_SUFFIXOF: "StrSuffixOf",
    op.STR_TO_INT: "StrToInt", op.INT_TO_STR: "IntToStr", op.STR_CHARAT: "StrCharAt",
    op.ARRAY_SELECT: "Select", op.ARRAY_STORE: "Store", op.DIV: "Div", op.POW: "Pow",
    op.BV_TONATURAL: "BVToNatural",
}
NARY = (op.AND, op.OR, op.PLUS, op.TIMES, op.STR_CONCAT)


def rebuild(mgr, f, args):
    nt = f.node_type()
    if not f.args() and nt not in (op.FORALL, op.EXISTS):
        return f
    if nt in SIMPLE:
        c = getattr(mgr, SIMPLE[nt])
        if nt in NARY:
            return c(list(args))
        return c(*args)
    if nt == op.FORALL:
        return mgr.ForAll(list(f.quantifier_vars()), args[0])
    if nt == op.EXISTS:
        return mgr.Exists(list(f.quantifier_vars()), args[0])
    if nt == op.FUNCTION:
        return mgr.Function(f.function_name(), list(args))
    if nt == op.BV_EXTRACT:
        return mgr.BVExtract(args[0], f.bv_extract_start(), f.bv_extract_end())
    if nt == op.BV_ROL:
        return mgr.BVRol(args[0], f.bv_rotation_step())
    if nt == op.BV_ROR:
        return mgr.BVRor(args[0], f.bv_rotation_step())
    if nt == op.BV_ZEXT:
        return mgr.BVZExt(args[0], f.bv_extend_step())
    if nt == op.BV_SEXT:
        return mgr.BVSExt(args[0], f.bv_extend_step())
    if nt == op.ARRAY_VALUE:
        return mgr.Array(f.array_value_index_type(), args[0], dict(zip(args[1::2], args[2::2])))
    raise ValueError("rebuild: %s" % op.op_to_str(nt))


def restrict(sigma, qvars):
    qs = set(qvars)
    return {k: v for k, v in sigma.items() if not (rs.free_vars(k) & qs)}


def mgs(mgr, f, sigma):
    if f in sigma:
        return sigma[f]
    if f.node_type() in (op.FORALL, op.EXISTS):
        inner = mgs(mgr, f.arg(0), restrict(sigma, f.quantifier_vars()))
        return rebuild(mgr, f, [inner])
    if not f.args():
        return f
    return rebuild(mgr, f, [mgs(mgr, a, sigma) for a in f.args()])


def mss(mgr, f, sigma):
    if f.node_type() in (op.FORALL, op.EXISTS):
        inner = mss(mgr, f.arg(0), restrict(sigma, f.quantifier_vars()))
        new = rebuild(mgr, f, [inner])
    elif not f.args():
        new = f
    else:
        new = rebuild(mgr, f, [mss(mgr, a, sigma) for a in f.args()])
    return sigma.get(new, new)
