"""Independent reference evaluator (FNode, interpretation) -> Python value.

Written from the SMT-LIB 2.6 theory definitions (Core, Ints, Reals, Reals_Ints, FixedSizeBitVectors
+ QF_BV extensions, Strings, ArraysEx).  Uses only FNode accessors.  Arithmetic only uses
+ - * // % and comparisons so that CrossHair encodes it linearly; bit-wise operators are per-bit loops
over the (concrete) width.

Values: Bool -> bool, Int -> int, Real -> Fraction (or int), BV(w) -> int in [0, 2**w), String -> str,
Array -> ArrVal(default, {index: value}) ; custom sorts -> any hashable.
Interpretation: dict symbol-FNode (or name) -> value ; function symbols -> Python callable.
"""
from fractions import Fraction

from pysmt import operators as op


class DivByZero(Exception):
    """An Int/Real division by zero was evaluated: the interpretation is unconstrained (skip)."""


class Unsupported(Exception):
    pass


class ArrVal(object):
    __slots__ = ("default", "m")

    def __init__(self, default, m=None):
        self.default = default
        self.m = dict(m) if m else {}
        for k in list(self.m):
            if veq(self.m[k], default):
                del self.m[k]

    def get(self, i):
        for k, v in self.m.items():
            if veq(k, i):
                return v
        return self.default

    def store(self, i, v):
        m = {k: x for k, x in self.m.items() if not veq(k, i)}
        m[i] = v
        return ArrVal(self.default, m)

    def __repr__(self):
        return "ArrVal(%r, %r)" % (self.default, self.m)


def veq(a, b):
    """Value equality (arrays extensionally, assuming an infinite or large-enough index domain is NOT
    assumed: two arrays are equal iff same default and same explicit map after default-removal; for
    finite index domains fully covered by stores this is an under-approximation that callers avoid)."""
    if isinstance(a, ArrVal) or isinstance(b, ArrVal):
        if not (isinstance(a, ArrVal) and isinstance(b, ArrVal)):
            return False
        if not veq(a.default, b.default):
            return False
        ks = list(a.m.keys()) + list(b.m.keys())
        for k in ks:
            if not veq(a.get(k), b.get(k)):
                return False
        return True
    if isinstance(a, bool) or isinstance(b, bool):
        return isinstance(a, bool) and isinstance(b, bool) and a == b
    return a == b


def to_signed(v, w):
    if v >= 2 ** (w - 1):
        return v - 2 ** w
    return v


def from_signed(v, w):
    return v % (2 ** w)


def bit(v, i):
    return (v // (2 ** i)) % 2


def bitwise(kind, a, b, w):
    """per-bit and/or/xor with branch-free linear arithmetic on the two bits (p + q in {0, 1, 2}):
    and = (p+q)//2, or = (p+q+1)//2, xor = (p+q)%2."""
    r = 0
    for i in range(w):
        s = bit(a, i) + bit(b, i)
        if kind == "and":
            t = s // 2
        elif kind == "or":
            t = (s + 1) // 2
        else:
            t = s % 2
        r += t * 2 ** i
    return r


def int_div(a, b):
    """SMT-LIB Ints div: b*q + r = a, 0 <= r < |b|."""
    if b == 0:
        raise DivByZero()
    if b > 0:
        return a // b
    return -(a // (-b))


def bv_udiv(a, b, w):
    if b == 0:
        return 2 ** w - 1
    return a // b


def bv_urem(a, b, w):
    if b == 0:
        return a
    return a % b


def bv_neg(a, w):
    return (2 ** w - a) % (2 ** w)


def bv_sdiv(a, b, w):
    sa = a >= 2 ** (w - 1)
    sb = b >= 2 ** (w - 1)
    if not sa and not sb:
        return bv_udiv(a, b, w)
    if sa and not sb:
        return bv_neg(bv_udiv(bv_neg(a, w), b, w), w)
    if not sa and sb:
        return bv_neg(bv_udiv(a, bv_neg(b, w), w), w)
    return bv_udiv(bv_neg(a, w), bv_neg(b, w), w)


def bv_srem(a, b, w):
    sa = a >= 2 ** (w - 1)
    sb = b >= 2 ** (w - 1)
    if not sa and not sb:
        return bv_urem(a, b, w)
    if sa and not sb:
        return bv_neg(bv_urem(bv_neg(a, w), b, w), w)
    if not sa and sb:
        return bv_urem(a, bv_neg(b, w), w)
    return bv_neg(bv_urem(bv_neg(a, w), bv_neg(b, w), w), w)


def bv_smod(a, b, w):
    sa = a >= 2 ** (w - 1)
    sb = b >= 2 ** (w - 1)
    abs_a = bv_neg(a, w) if sa else a
    abs_b = bv_neg(b, w) if sb else b
    u = bv_urem(abs_a, abs_b, w)
    if u == 0:
        return u
    if not sa and not sb:
        return u
    if sa and not sb:
        return (bv_neg(u, w) + b) % 2 ** w
    if not sa and sb:
        return (u + b) % 2 ** w
    return bv_neg(u, w)


def str_substr(s, i, n):
    if i < 0 or i >= len(s) or n <= 0:
        return ""
    return s[i:min(len(s), i + n)]


def str_indexof(s, t, i):
    if i < 0 or i > len(s):
        return -1
    return s.find(t, i)


def str_to_int(s):
    if len(s) == 0:
        return -1
    r = 0
    for ch in s:
        if ch < "0" or ch > "9":
            return -1
        r = r * 10 + (ord(ch) - 48)
    return r


def int_to_str(n):
    if n < 0:
        return ""
    return str(n)


def str_replace(s, t, u):
    if t == "":
        return u + s
    k = s.find(t)
    if k < 0:
        return s
    return s[:k] + u + s[k + len(t):]


def domain_of(ty, bound=64):
    if ty.is_bool_type():
        return [False, True]
    if ty.is_bv_type():
        if 2 ** ty.width > bound:
            raise Unsupported("quantifier over BV(%d)" % ty.width)
        return list(range(2 ** ty.width))
    raise Unsupported("quantifier over %s" % ty)


class Evaluator(object):
    def __init__(self, interp, qbound=64):
        self.interp = interp
        self.qbound = qbound

    def lookup(self, s):
        if s in self.interp:
            return self.interp[s]
        n = s.symbol_name()
        if n in self.interp:
            return self.interp[n]
        raise KeyError("no value for symbol %s" % n)

    def ev(self, f):
        # recursion is on formula nesting; reference evaluator is used on small terms only
        nt = f.node_type()
        if nt == op.SYMBOL:
            return self.lookup(f)
        if nt == op.BOOL_CONSTANT:
            return bool(f.constant_value())
        if nt == op.INT_CONSTANT:
            return f.constant_value()
        if nt == op.REAL_CONSTANT:
            return f.constant_value()
        if nt == op.STR_CONSTANT:
            return f.constant_value()
        if nt == op.BV_CONSTANT:
            return f.constant_value()
        if nt == op.ALGEBRAIC_CONSTANT:
            raise Unsupported("algebraic constant")
        if nt in (op.FORALL, op.EXISTS):
            return self.quant(f)
        if nt == op.AND:
            r = True
            for a in f.args():
                if not self.ev(a):
                    r = False
            return r
        if nt == op.OR:
            r = False
            for a in f.args():
                if self.ev(a):
                    r = True
            return r
        if nt == op.ITE:
            # strict in the condition only (a division by zero in the branch not taken is not evaluated)
            if self.ev(f.arg(0)):
                return self.ev(f.arg(1))
            return self.ev(f.arg(2))
        a = [self.ev(x) for x in f.args()]
        if nt == op.NOT:
            return not a[0]
        if nt == op.IMPLIES:
            return (not a[0]) or a[1]
        if nt == op.IFF:
            return a[0] == a[1]
        if nt == op.FUNCTION:
            fn = self.lookup(f.function_name())
            return fn(*a)
        if nt == op.PLUS:
            r = a[0]
            for x in a[1:]:
                r = r + x
            return r
        if nt == op.MINUS:
            return a[0] - a[1]
        if nt == op.TIMES:
            r = a[0]
            for x in a[1:]:
                r = r * x
            return r
        if nt == op.DIV:
            if f.arg(0).get_type().is_int_type():
                return int_div(a[0], a[1])
            if a[1] == 0:
                raise DivByZero()
            return Fraction(a[0]) / Fraction(a[1])
        if nt == op.POW:
            e = a[1]
            if Fraction(e).denominator != 1 or e < 0:
                raise Unsupported("pow exponent")
            r = 1
            for _ in range(int(e)):
                r = r * a[0]
            return r
        if nt == op.LE:
            return a[0] <= a[1]
        if nt == op.LT:
            return a[0] < a[1]
        if nt == op.EQUALS:
            return veq(a[0], a[1])
        if nt == op.TOREAL:
            return a[0]
        if nt in BV_HANDLERS:
            return BV_HANDLERS[nt](f, a)
        if nt == op.STR_LENGTH:
            return len(a[0])
        if nt == op.STR_CONCAT:
            return "".join(a)
        if nt == op.STR_CONTAINS:
            return a[1] in a[0]
        if nt == op.STR_INDEXOF:
            return str_indexof(a[0], a[1], a[2])
        if nt == op.STR_REPLACE:
            return str_replace(a[0], a[1], a[2])
        if nt == op.STR_SUBSTR:
            return str_substr(a[0], a[1], a[2])
        if nt == op.STR_PREFIXOF:
            return a[1].startswith(a[0])
        if nt == op.STR_SUFFIXOF:
            return a[1].endswith(a[0])
        if nt == op.STR_TO_INT:
            return str_to_int(a[0])
        if nt == op.INT_TO_STR:
            return int_to_str(a[0])
        if nt == op.STR_CHARAT:
            return str_substr(a[0], a[1], 1)
        if nt == op.ARRAY_SELECT:
            return a[0].get(a[1])
        if nt == op.ARRAY_STORE:
            return a[0].store(a[1], a[2])
        if nt == op.ARRAY_VALUE:
            r = ArrVal(a[0])
            for i in range(1, len(a), 2):
                r = r.store(a[i], a[i + 1])
            return r
        raise Unsupported("operator %s" % op.op_to_str(nt))

    def quant(self, f):
        vs = f.quantifier_vars()
        doms = [domain_of(v.symbol_type(), self.qbound) for v in vs]
        is_forall = f.node_type() == op.FORALL
        saved = {}
        for v in vs:
            if v in self.interp:
                saved[v] = self.interp[v]
        idx = [0] * len(vs)
        result = is_forall
        while True:
            for v, d, i in zip(vs, doms, idx):
                self.interp[v] = d[i]
            val = self.ev(f.arg(0))
            if is_forall and not val:
                result = False
            if (not is_forall) and val:
                result = True
            k = 0
            while k < len(vs):
                idx[k] += 1
                if idx[k] < len(doms[k]):
                    break
                idx[k] = 0
                k += 1
            if k == len(vs):
                break
        for v in vs:
            if v in saved:
                self.interp[v] = saved[v]
            else:
                del self.interp[v]
        return result


def _w(f):
    return f.bv_width()


def _shl(f, a):
    w = _w(f)
    if a[1] >= w:
        return 0
    return (a[0] * 2 ** a[1]) % 2 ** w


def _lshr(f, a):
    w = _w(f)
    if a[1] >= w:
        return 0
    return a[0] // 2 ** a[1]


def _ashr(f, a):
    w = _w(f)
    neg = a[0] >= 2 ** (w - 1)
    sh = a[1] if a[1] < w else w
    if not neg:
        return a[0] // 2 ** sh
    # arithmetic shift of the signed value
    return from_signed(to_signed(a[0], w) // 2 ** sh, w)


def _rol(f, a):
    w = _w(f)
    k = f.bv_rotation_step() % w
    return ((a[0] * 2 ** k) % 2 ** w) + (a[0] // 2 ** (w - k))


def _ror(f, a):
    w = _w(f)
    k = f.bv_rotation_step() % w
    return (a[0] // 2 ** k) + ((a[0] % 2 ** k) * 2 ** (w - k))


def _sext(f, a):
    w0 = f.arg(0).bv_width()
    return from_signed(to_signed(a[0], w0), _w(f))


def _extract(f, a):
    s, e = f.bv_extract_start(), f.bv_extract_end()
    return (a[0] // 2 ** s) % 2 ** (e - s + 1)


def _argw(f):
    return f.arg(0).bv_width()


BV_HANDLERS = {
    op.BV_NOT: lambda f, a: 2 ** _w(f) - 1 - a[0],
    op.BV_AND: lambda f, a: bitwise("and", a[0], a[1], _w(f)),
    op.BV_OR: lambda f, a: bitwise("or", a[0], a[1], _w(f)),
    op.BV_XOR: lambda f, a: bitwise("xor", a[0], a[1], _w(f)),
    op.BV_CONCAT: lambda f, a: a[0] * 2 ** f.arg(1).bv_width() + a[1],
    op.BV_EXTRACT: _extract,
    op.BV_ULT: lambda f, a: a[0] < a[1],
    op.BV_ULE: lambda f, a: a[0] <= a[1],
    op.BV_NEG: lambda f, a: bv_neg(a[0], _w(f)),
    op.BV_ADD: lambda f, a: (a[0] + a[1]) % 2 ** _w(f),
    op.BV_SUB: lambda f, a: (a[0] - a[1]) % 2 ** _w(f),
    op.BV_MUL: lambda f, a: (a[0] * a[1]) % 2 ** _w(f),
    op.BV_UDIV: lambda f, a: bv_udiv(a[0], a[1], _w(f)),
    op.BV_UREM: lambda f, a: bv_urem(a[0], a[1], _w(f)),
    op.BV_LSHL: _shl,
    op.BV_LSHR: _lshr,
    op.BV_ROL: _rol,
    op.BV_ROR: _ror,
    op.BV_ZEXT: lambda f, a: a[0],
    op.BV_SEXT: _sext,
    op.BV_SLT: lambda f, a: to_signed(a[0], _argw(f)) < to_signed(a[1], _argw(f)),
    op.BV_SLE: lambda f, a: to_signed(a[0], _argw(f)) <= to_signed(a[1], _argw(f)),
    op.BV_COMP: lambda f, a: 1 if a[0] == a[1] else 0,
    op.BV_SDIV: lambda f, a: bv_sdiv(a[0], a[1], _w(f)),
    op.BV_SREM: lambda f, a: bv_srem(a[0], a[1], _w(f)),
    op.BV_ASHR: _ashr,
    op.BV_TONATURAL: lambda f, a: a[0],
}


def evaluate(f, interp=None, qbound=64):
    return Evaluator(dict(interp or {}), qbound).ev(f)
