"""Independent structural definitions over FNodes (free symbols, sub-terms, structural key, typing).

Everything here is a plain recursive definition on (node_type, args, payload accessors); nothing calls
pySMT's oracles, walkers or type checker.
"""
from fractions import Fraction

from pysmt import operators as op


def free_vars(f, _memo=None):
    """Set of free symbols (function names count as symbols, like pySMT documents)."""
    if _memo is None:
        _memo = {}
    if f in _memo:
        return _memo[f]
    nt = f.node_type()
    if nt == op.SYMBOL:
        r = frozenset([f])
    elif nt in (op.FORALL, op.EXISTS):
        r = free_vars(f.arg(0), _memo) - frozenset(f.quantifier_vars())
    elif nt == op.FUNCTION:
        r = frozenset([f.function_name()])
        for a in f.args():
            r = r | free_vars(a, _memo)
    else:
        r = frozenset()
        for a in f.args():
            r = r | free_vars(a, _memo)
    _memo[f] = r
    return r


def all_symbols(f, _memo=None):
    """Every symbol occurring anywhere (free, bound, binder lists, function names)."""
    if _memo is None:
        _memo = {}
    if f in _memo:
        return _memo[f]
    nt = f.node_type()
    r = frozenset()
    if nt == op.SYMBOL:
        r = frozenset([f])
    if nt in (op.FORALL, op.EXISTS):
        r = r | frozenset(f.quantifier_vars())
    if nt == op.FUNCTION:
        r = r | frozenset([f.function_name()])
    for a in f.args():
        r = r | all_symbols(a, _memo)
    _memo[f] = r
    return r


def subterms(f, _seen=None):
    if _seen is None:
        _seen = []
    if f in _seen:
        return _seen
    for a in f.args():
        subterms(a, _seen)
    _seen.append(f)
    return _seen


def has_quantifier(f):
    return any(t.node_type() in (op.FORALL, op.EXISTS) for t in subterms(f))


def depth(f):
    return 1 + max([depth(a) for a in f.args()] or [0])


def tree_size(f, _memo=None):
    if _memo is None:
        _memo = {}
    if f in _memo:
        return _memo[f]
    r = 1 + sum(tree_size(a, _memo) for a in f.args())
    _memo[f] = r
    return r


def ty_key(ty):
    if ty.is_bool_type():
        return "Bool"
    if ty.is_int_type():
        return "Int"
    if ty.is_real_type():
        return "Real"
    if ty.is_string_type():
        return "String"
    if ty.is_bv_type():
        return ("BV", ty.width)
    if ty.is_array_type():
        return ("Array", ty_key(ty.index_type), ty_key(ty.elem_type))
    if ty.is_function_type():
        return ("Fun", ty_key(ty.return_type), tuple(ty_key(p) for p in ty.param_types))
    return ("Sort", str(ty.basename), tuple(ty_key(a) for a in (ty.args or ())))


def payload_key(f):
    nt = f.node_type()
    if nt == op.SYMBOL:
        return (f.symbol_name(), ty_key(f.symbol_type()))
    if nt == op.BOOL_CONSTANT:
        return ("b", bool(f._content.payload))
    if nt == op.INT_CONSTANT:
        return ("i", int(f._content.payload))
    if nt == op.REAL_CONSTANT:
        fr = Fraction(f._content.payload)
        return ("q", fr.numerator, fr.denominator)
    if nt == op.STR_CONSTANT:
        return ("s", f._content.payload)
    if nt == op.BV_CONSTANT:
        return ("bv", int(f._content.payload[0]), int(f._content.payload[1]))
    if nt in (op.FORALL, op.EXISTS):
        return tuple(skey(v) for v in f._content.payload)
    if nt == op.FUNCTION:
        return skey(f._content.payload)
    if nt == op.ARRAY_VALUE:
        return ty_key(f._content.payload)
    p = f._content.payload
    if p is None:
        return None
    return tuple(p)


def skey(f, _memo=None):
    """Structural key: (operator, payload, children keys) - equal keys <=> same structure."""
    if _memo is None:
        _memo = {}
    if f in _memo:
        return _memo[f]
    if f.node_type() == op.ARRAY_VALUE:
        # the stored order of the assignments of an array value follows object addresses: as a structure it is a map
        args = f.args()
        pairs = sorted(((skey(args[i], _memo), skey(args[i + 1], _memo)) for i in range(1, len(args), 2)), key=repr)
        r = (f.node_type(), payload_key(f), (skey(args[0], _memo),) + tuple(pairs))
    else:
        r = (f.node_type(), payload_key(f), tuple(skey(a, _memo) for a in f.args()))
    _memo[f] = r
    return r


AC_OPS = frozenset([op.AND, op.OR, op.PLUS, op.TIMES, op.IFF, op.EQUALS, op.BV_AND, op.BV_OR, op.BV_XOR,
                    op.BV_ADD, op.BV_MUL, op.BV_COMP])


def ackey(f, _memo=None, rename=None):
    """AC-canonical structural key: commutative operators compare as sorted multisets (n-ary and/or/
    plus/times additionally flattened); symbols may be renamed through `rename` (name -> canonical)."""
    if _memo is None:
        _memo = {}
    if f in _memo:
        return _memo[f]
    nt = f.node_type()
    if nt == op.SYMBOL and rename is not None:
        r = (nt, (rename.get(f.symbol_name(), f.symbol_name()), ty_key(f.symbol_type())), ())
    elif nt in (op.AND, op.OR, op.PLUS, op.TIMES):
        kids = []
        stack = list(f.args())
        while stack:
            a = stack.pop()
            if a.node_type() == nt:
                stack.extend(a.args())
            else:
                kids.append(ackey(a, _memo, rename))
        r = (nt, None, tuple(sorted(kids, key=repr)))
    elif nt in AC_OPS:
        r = (nt, payload_key(f), tuple(sorted((ackey(a, _memo, rename) for a in f.args()), key=repr)))
    elif nt in (op.FORALL, op.EXISTS):
        r = (nt, tuple(sorted((ackey(v, _memo, rename) for v in f.quantifier_vars()), key=repr)),
             (ackey(f.arg(0), _memo, rename),))
    elif nt == op.ARRAY_VALUE:
        pairs = [(ackey(f.args()[i], _memo, rename), ackey(f.args()[i + 1], _memo, rename))
                 for i in range(1, len(f.args()), 2)]
        r = (nt, ty_key(f.array_value_index_type()),
             (ackey(f.arg(0), _memo, rename),) + tuple(sorted(pairs, key=repr)))
    else:
        pk = payload_key(f)
        if nt == op.FUNCTION and rename is not None:
            pk = ackey(f.function_name(), _memo, rename)
        r = (nt, pk, tuple(ackey(a, _memo, rename) for a in f.args()))
    _memo[f] = r
    return r


def shape(f):
    """Short classification of a node used in violation signatures."""
    nt = f.node_type()
    n = op.op_to_str(nt)
    if nt in (op.INT_CONSTANT, op.REAL_CONSTANT):
        v = f._content.payload
        if v < 0:
            return n + "<0"
        if v == 0:
            return n + "=0"
        return n + ">0"
    if nt == op.STR_CONSTANT:
        return n + ("=''" if f._content.payload == "" else "")
    return n
