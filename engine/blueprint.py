"""FNode <-> JSON blueprint (used for replay files and evidence samples).

A blueprint is nested lists:  [OPNAME, [children...], payload]  with leaves
["SYMBOL", name, type], ["INT", v], ["REAL", n, d], ["BOOL", b], ["STR", s], ["BV", v, w].
Types: "Bool" | "Int" | "Real" | "String" | ["BV", w] | ["Array", i, e] | ["Fun", ret, [params]] |
["Sort", name].  Rebuilding goes through FormulaManager.create_node with the recorded payload, i.e. it
reproduces exactly the node (no constructor normalisation in between).
"""
from fractions import Fraction

from pysmt import operators as op
from pysmt import typing as T


def ty_to_bp(ty):
    if ty.is_bool_type():
        return "Bool"
    if ty.is_int_type():
        return "Int"
    if ty.is_real_type():
        return "Real"
    if ty.is_string_type():
        return "String"
    if ty.is_bv_type():
        return ["BV", ty.width]
    if ty.is_array_type():
        return ["Array", ty_to_bp(ty.index_type), ty_to_bp(ty.elem_type)]
    if ty.is_function_type():
        return ["Fun", ty_to_bp(ty.return_type), [ty_to_bp(p) for p in ty.param_types]]
    if getattr(ty, "args", None):
        return ["Sort", str(ty.basename), [ty_to_bp(a) for a in ty.args]]
    return ["Sort", str(ty.basename)]


def bp_to_ty(bp, env):
    tm = env.type_manager
    if bp == "Bool":
        return T.BOOL
    if bp == "Int":
        return T.INT
    if bp == "Real":
        return T.REAL
    if bp == "String":
        return T.STRING
    if bp[0] == "BV":
        return tm.BVType(bp[1])
    if bp[0] == "Array":
        return tm.ArrayType(bp_to_ty(bp[1], env), bp_to_ty(bp[2], env))
    if bp[0] == "Fun":
        return tm.FunctionType(bp_to_ty(bp[1], env), [bp_to_ty(p, env) for p in bp[2]])
    if bp[0] == "Sort":
        if len(bp) > 2 and bp[2]:
            return tm.Type(bp[1], len(bp[2]))(*[bp_to_ty(a, env) for a in bp[2]])
        return tm.Type(bp[1], 0)
    raise ValueError(bp)


def to_bp(f):
    nt = f.node_type()
    if nt == op.SYMBOL:
        return ["SYMBOL", f.symbol_name(), ty_to_bp(f.symbol_type())]
    if nt == op.INT_CONSTANT:
        return ["INT", int(f.constant_value())]
    if nt == op.REAL_CONSTANT:
        fr = Fraction(f.constant_value())
        return ["REAL", fr.numerator, fr.denominator]
    if nt == op.BOOL_CONSTANT:
        return ["BOOL", bool(f.constant_value())]
    if nt == op.STR_CONSTANT:
        return ["STR", f.constant_value()]
    if nt == op.BV_CONSTANT:
        return ["BV", int(f.constant_value()), f.bv_width()]
    name = op.op_to_str(nt)
    kids = [to_bp(a) for a in f.args()]
    payload = None
    if nt in (op.FORALL, op.EXISTS):
        payload = [to_bp(v) for v in f.quantifier_vars()]
    elif nt == op.FUNCTION:
        payload = to_bp(f.function_name())
    elif nt == op.ARRAY_VALUE:
        payload = ty_to_bp(f.array_value_index_type())
    elif f._content.payload is not None:
        payload = list(f._content.payload)
    return [name, kids, payload]


_NAME2OP = None


def name2op(name):
    global _NAME2OP
    if _NAME2OP is None:
        _NAME2OP = {op.op_to_str(i): i for i in op.ALL_TYPES}
    return _NAME2OP[name]


def from_bp(bp, env):
    mgr = env.formula_manager
    k = bp[0]
    if k == "SYMBOL":
        return mgr.Symbol(bp[1], bp_to_ty(bp[2], env))
    if k == "INT":
        return mgr.Int(bp[1])
    if k == "REAL":
        return mgr.Real(Fraction(bp[1], bp[2]))
    if k == "BOOL":
        return mgr.Bool(bp[1])
    if k == "STR":
        return mgr.String(bp[1])
    if k == "BV":
        return mgr.BV(bp[1], bp[2])
    nt = name2op(k)
    kids = tuple(from_bp(c, env) for c in bp[1])
    payload = bp[2]
    if nt in (op.FORALL, op.EXISTS):
        payload = tuple(from_bp(v, env) for v in payload)
    elif nt == op.FUNCTION:
        payload = from_bp(payload, env)
    elif nt == op.ARRAY_VALUE:
        payload = bp_to_ty(payload, env)
    elif payload is not None:
        payload = tuple(payload)
    return mgr.create_node(node_type=nt, args=kids, payload=payload)


def value_to_json(v):
    """Python reference value -> JSON."""
    from engine.ref.refeval import ArrVal
    if isinstance(v, bool):
        return {"b": v}
    if isinstance(v, int):
        return {"i": str(v)}
    if isinstance(v, Fraction):
        return {"q": [str(v.numerator), str(v.denominator)]}
    if isinstance(v, str):
        return {"s": v}
    if isinstance(v, ArrVal):
        return {"arr": [value_to_json(v.default), [[value_to_json(k), value_to_json(x)] for k, x in v.m.items()]]}
    return {"repr": repr(v)}


def value_from_json(j):
    from engine.ref.refeval import ArrVal
    if "b" in j:
        return j["b"]
    if "i" in j:
        return int(j["i"])
    if "q" in j:
        return Fraction(int(j["q"][0]), int(j["q"][1]))
    if "s" in j:
        return j["s"]
    if "arr" in j:
        d = value_from_json(j["arr"][0])
        a = ArrVal(d)
        for k, x in j["arr"][1]:
            a = a.store(value_from_json(k), value_from_json(x))
        return a
    raise ValueError(j)
