"""TV engine: run the real transformer on a formula with free leaves, translate input and output with the
independent translator, and ask z3 for an interpretation separating them.

Workers regenerate the (deterministic) instance list themselves and take a stride of it, because FNodes
are per-environment objects that cannot be shipped between processes.
"""
import time
import warnings
from fractions import Fraction

import z3

from engine.ref.tr_z3 import Z3Tr, Untranslatable
from engine.ref import refeval
from engine import blueprint as bp
from engine import core


def fresh_env():
    from pysmt.environment import Environment, push_env
    env = Environment()
    push_env(env)
    env.enable_div_by_0 = True
    env.enable_infix_notation = True
    warnings.simplefilter("ignore")
    return env


# ---- model extraction -----------------------------------------------------------------------------
def z3val_to_py(v):
    if z3.is_true(v):
        return True
    if z3.is_false(v):
        return False
    if z3.is_int_value(v):
        return v.as_long()
    if z3.is_rational_value(v):
        return Fraction(v.numerator_as_long(), v.denominator_as_long())
    if z3.is_bv_value(v):
        return v.as_long()
    if z3.is_string_value(v):
        return v.as_string()
    if z3.is_algebraic_value(v):
        raise ValueError("algebraic")
    if z3.is_const_array(v):
        return refeval.ArrVal(z3val_to_py(v.arg(0)))
    if z3.is_store(v):
        base = z3val_to_py(v.arg(0))
        return base.store(z3val_to_py(v.arg(1)), z3val_to_py(v.arg(2)))
    raise ValueError("unsupported z3 value %s" % v)


def model_to_interp(model, tr):
    """-> (interp_json, complete_flag).  interp_json: {name: value_json | {"fun": [[args...], val], "else": v}}"""
    out = {}
    complete = True
    for (name, _ty), c in tr.sym_cache.items():
        try:
            if isinstance(c, z3.FuncDeclRef):
                fi = model[c]
                if fi is None:
                    complete = False
                    continue
                entries = []
                for k in range(fi.num_entries()):
                    e = fi.entry(k)
                    entries.append([[bp.value_to_json(z3val_to_py(e.arg_value(i))) for i in range(e.num_args())],
                                    bp.value_to_json(z3val_to_py(e.value()))])
                out[name] = {"fun": entries, "else": bp.value_to_json(z3val_to_py(fi.else_value()))}
            else:
                v = model.eval(c, model_completion=True)
                out[name] = bp.value_to_json(z3val_to_py(v))
        except Exception:
            complete = False
    return out, complete


def interp_from_json(j):
    out = {}
    for name, v in j.items():
        if isinstance(v, dict) and "fun" in v:
            table = [([bp.value_from_json(a) for a in args], bp.value_from_json(val)) for args, val in v["fun"]]
            els = bp.value_from_json(v["else"])

            def fn(*args, _t=table, _e=els):
                for ks, val in _t:
                    if len(ks) == len(args) and all(refeval.veq(k, a) for k, a in zip(ks, args)):
                        return val
                return _e
            out[name] = fn
        else:
            out[name] = bp.value_from_json(v)
    return out


# ---- the query ----------------------------------------------------------------------------------------
class Verdict(object):
    __slots__ = ("status", "reason", "interp", "complete", "t", "queried")

    def __init__(self, status, reason="", interp=None, complete=False, t=0.0, queried=False):
        self.status = status      # same | unsat | sat | unknown | untranslatable | typechange
        self.reason = reason
        self.interp = interp
        self.complete = complete
        self.t = t
        self.queried = queried


_SOLVER = None


def solver(timeout_ms):
    global _SOLVER
    if _SOLVER is None:
        _SOLVER = z3.Solver()
    _SOLVER.set("timeout", timeout_ms)
    return _SOLVER


def check_equiv(f, g, timeout_ms=5000, extra_premises=None, tr=None):
    """Is there an interpretation (with every evaluated Int/Real divisor non-zero) where f and g differ?"""
    if f is g:
        return Verdict("same")
    t0 = time.time()
    tr = tr or Z3Tr()
    try:
        zf = tr.tr(f)
        zg = tr.tr(g)
    except Untranslatable as e:
        return Verdict("untranslatable", str(e))
    if not zf.sort().eq(zg.sort()):
        return Verdict("typechange", "sort %s vs %s" % (zf.sort(), zg.sort()))
    if zf.eq(zg):
        return Verdict("same")
    s = solver(timeout_ms)
    s.push()
    try:
        for d in tr.defined:
            s.add(d)
        for p in (extra_premises or []):
            s.add(p)
        s.add(zf != zg)
        r = s.check()
        dt = time.time() - t0
        if r == z3.unsat:
            return Verdict("unsat", t=dt, queried=True)
        if r == z3.sat:
            interp, complete = model_to_interp(s.model(), tr)
            return Verdict("sat", interp=interp, complete=complete, t=dt, queried=True)
        return Verdict("unknown", s.reason_unknown(), t=dt, queried=True)
    except z3.Z3Exception as e:
        return Verdict("unknown", "z3 exception %s" % e, t=time.time() - t0, queried=True)
    finally:
        s.pop()


def check_valid(zformula, timeout_ms=5000, premises=()):
    """validity of a z3 formula: returns ('unsat'|'sat'|'unknown', model_or_reason, dt)"""
    t0 = time.time()
    s = solver(timeout_ms)
    s.push()
    try:
        for p in premises:
            s.add(p)
        s.add(z3.Not(zformula))
        r = s.check()
        if r == z3.unsat:
            return "unsat", None, time.time() - t0
        if r == z3.sat:
            return "sat", s.model(), time.time() - t0
        return "unknown", s.reason_unknown(), time.time() - t0
    except z3.Z3Exception as e:
        return "unknown", str(e), time.time() - t0
    finally:
        s.pop()


# ---- native replay of an (f, T(f)) disagreement ---------------------------------------------------
def replay_equiv(f, g, interp_json, timeout_ms=20000):
    """Re-establish that f and g differ: first with the reference evaluator under the recorded
    interpretation; if that is outside refeval's reach, by re-asking z3 on the independent translation.
    Returns (reproduced: bool, msg)."""
    if f is g:
        return False, "transformer returned the input itself"
    try:
        interp = interp_from_json(interp_json or {})
        vf = refeval.evaluate(f, interp)
        vg = refeval.evaluate(g, interp)
        if not refeval.veq(vf, vg):
            return True, "refeval: input=%r output=%r under %r" % (vf, vg, interp_json)
        # refeval says equal under this interpretation: fall through to z3 (model may have been partial)
    except refeval.DivByZero:
        pass
    except Exception:
        pass
    v = check_equiv(f, g, timeout_ms)
    if v.status == "sat":
        return True, "z3 (independent translation) separates input and output: %r" % (v.interp,)
    if v.status == "typechange":
        return True, "type changed: %s" % v.reason
    return False, "status=%s %s" % (v.status, v.reason)


# ---- striding worker ----------------------------------------------------------------------------------
_JOBS = {}


def register(name, gen_fn, check_fn):
    """gen_fn(env, tier) -> list of instances (deterministic); check_fn(env, inst) -> result dict."""
    _JOBS[name] = (gen_fn, check_fn)


def _worker(args):
    name, tier, wid, n = args
    gen_fn, check_fn = _JOBS[name]
    env = fresh_env()
    insts = gen_fn(env, tier)
    res = {"n": 0, "ok": 0, "same": 0, "queried": 0, "solver_s": 0.0, "viol": [], "inconc": [], "samples": [],
           "total": len(insts), "nontrivial": 0}
    for k in range(wid, len(insts), n):
        r = check_fn(env, insts[k])
        res["n"] += 1
        st = r["status"]
        res["solver_s"] += r.get("t", 0.0)
        res["queried"] += r.get("queries", 1 if r.get("queried") else 0)
        if r.get("nontrivial"):
            res["nontrivial"] += 1
        if st == "ok":
            res["ok"] += 1
            if r.get("same"):
                res["same"] += 1
            if r.get("sample") and len(res["samples"]) < 3:
                res["samples"].append(r["sample"])
        elif st == "viol":
            if len(res["viol"]) < 400:
                res["viol"].append(r)
            else:
                res["viol_overflow"] = res.get("viol_overflow", 0) + 1
        else:
            if len(res["inconc"]) < 200:
                res["inconc"].append((r.get("name", "?"), r.get("reason", "")))
            else:
                res["inconc_overflow"] = res.get("inconc_overflow", 0) + 1
    return res


def run_family(run, name, tier, workers=None, max_report=40):
    """Runs the registered job over all instances with striding workers and folds the results into run."""
    workers = workers or core.nworkers()
    results = core.pmap(_worker, [(name, tier, w, workers) for w in range(workers)], workers=workers)
    total = results[0]["total"] if results else 0
    ok = sum(r["ok"] for r in results)
    q = sum(r["queried"] for r in results)
    ss = sum(r["solver_s"] for r in results)
    run.ok(name, ok, queries=q, solver_s=ss)
    run.evaluations += sum(r["n"] for r in results)
    nt = sum(r["nontrivial"] for r in results)
    run.extra["distinct_nontrivial"] = run.extra.get("distinct_nontrivial", 0) + nt
    run.fam(name)["instances"] = total
    run.fam(name)["identical_output"] = sum(r["same"] for r in results)
    for r in results:
        for s in r["samples"]:
            run.sample({"family": name, "instance": s}, cap=16)
        for nm, reason in r["inconc"]:
            run.inconc(name, nm, reason)
        for _ in range(r.get("inconc_overflow", 0)):
            run.inconc(name, "(overflow)", "more inconclusive instances than listed")
    viols = [v for r in results for v in r["viol"]]
    # group by signature so that one defect is replayed a bounded number of times
    by_sig = {}
    for v in viols:
        by_sig.setdefault(v["signature"], []).append(v)
    run.fam(name)["violation_signatures"] = {k: len(v) for k, v in by_sig.items()}
    for sig, vs in sorted(by_sig.items()):
        for v in vs[:2]:
            run.violation(name, v["name"], v["replay"], sig, v["describe"])
        if len(vs) > 2:
            run.fam(name)["violations"] += len(vs) - 2
    return viols
