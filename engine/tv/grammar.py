"""Bounded-exhaustive formula grammar (selector dimension S).

Forward generation: leaf pools per sort -> level-1 terms (every operator over leaves) -> level-2 terms
(every operator over a reduced pool of leaves + one representative level-1 term per operator/shape).
All construction goes through the real FormulaManager of the given environment; a constructor that
raises is simply not an instance (C03 checks rejection separately).
"""
import itertools
from fractions import Fraction

from pysmt import typing as T
from pysmt import operators as op


class Grammar(object):
    def __init__(self, env, widths=(1, 2, 3), tier="quick", strings=True, arrays=True, uf=True,
                 quantifiers=True, nonlinear=True):
        self.env = env
        self.m = env.formula_manager
        self.tm = env.type_manager
        self.widths = tuple(widths)
        self.tier = tier
        self.want = dict(strings=strings, arrays=arrays, uf=uf, quantifiers=quantifiers, nonlinear=nonlinear)
        m = self.m
        self.B = T.BOOL
        self.I = T.INT
        self.R = T.REAL
        self.S = T.STRING
        self.bvs = [self.tm.BVType(w) for w in self.widths]
        self.AII = self.tm.ArrayType(T.INT, T.INT)
        # symbols
        self.sym = {}
        self.sym[self.B] = [m.Symbol("a", T.BOOL), m.Symbol("b", T.BOOL)]
        self.sym[self.I] = [m.Symbol("i", T.INT), m.Symbol("j", T.INT)]
        self.sym[self.R] = [m.Symbol("r", T.REAL), m.Symbol("s", T.REAL)]
        self.sym[self.S] = [m.Symbol("u", T.STRING), m.Symbol("v", T.STRING)]
        for bt in self.bvs:
            self.sym[bt] = [m.Symbol("x%d" % bt.width, bt), m.Symbol("y%d" % bt.width, bt)]
        self.sym[self.AII] = [m.Symbol("m", self.AII), m.Symbol("n", self.AII)]
        self.abv = {}
        for bt in self.bvs:
            at = self.tm.ArrayType(bt, bt)
            self.abv[bt] = at
            self.sym[at] = [m.Symbol("mb%d" % bt.width, at)]
        self.fI = m.Symbol("fI", self.tm.FunctionType(T.INT, [T.INT]))
        self.pI = m.Symbol("pI", self.tm.FunctionType(T.BOOL, [T.INT]))
        self.gR = m.Symbol("gR", self.tm.FunctionType(T.REAL, [T.REAL, T.REAL]))
        self.hB = m.Symbol("hB", self.tm.FunctionType(T.BOOL, [T.BOOL]))
        self.fV = {bt: m.Symbol("fV%d" % bt.width, self.tm.FunctionType(bt, [bt])) for bt in self.bvs}
        # constants
        self.const = {}
        self.const[self.B] = [m.TRUE(), m.FALSE()]
        self.const[self.I] = [m.Int(0), m.Int(1), m.Int(-1), m.Int(2), m.Int(-3), m.Int(-2), m.Int(2 ** 53 + 1),
                              m.Int(-(2 ** 63) - 1)]
        self.const[self.R] = [m.Real(0), m.Real(1), m.Real(-1), m.Real(Fraction(1, 2)), m.Real(Fraction(-3, 2))]
        self.const[self.S] = [m.String(""), m.String("a"), m.String("ab"), m.String("7"), m.String("ba"), m.String("+5"),
                              m.String("\u0663"), m.String(" 1"), m.String("abcab")]
        for bt in self.bvs:
            w = bt.width
            vals = sorted(set([0, 1 % 2 ** w, 2 ** w - 1, 2 ** (w - 1), (2 ** (w - 1) - 1) % 2 ** w, 2 % 2 ** w]))
            self.const[bt] = [m.BV(v, w) for v in vals]
        k0 = m.Array(T.INT, m.Int(0))
        k1 = m.Array(T.INT, m.Int(1))
        self.const[self.AII] = [k0, k1, m.Array(T.INT, m.Int(0), {m.Int(1): m.Int(2)}),
                                m.Array(T.INT, m.Int(0), {m.Int(1): m.Int(2), m.Int(-1): m.Int(1)})]
        for bt in self.bvs:
            at = self.abv[bt]
            z = m.BV(0, bt.width)
            o = m.BV(2 ** bt.width - 1, bt.width)
            self.const[at] = [m.Array(bt, z), m.Array(bt, o), m.Array(bt, z, {z: o})]

    # ---- pools ---------------------------------------------------------------------------
    def sorts(self):
        ss = [self.B, self.I, self.R] + self.bvs
        if self.want["strings"]:
            ss.append(self.S)
        if self.want["arrays"]:
            ss.append(self.AII)
            ss += [self.abv[bt] for bt in self.bvs]
        return ss

    def leaves(self, sort, reduced=False):
        s = self.sym.get(sort, [])
        c = self.const.get(sort, [])
        if reduced:
            return s[:2] + c[:3]
        return s + c

    def _try(self, fn, *args):
        try:
            return fn(*args)
        except Exception:
            return None

    # ---- one level of operator application ---------------------------------------------------
    def apply_ops(self, pool, tag):
        """pool: dict sort -> list of terms.  Yields (opname, term) for every operator application whose
        arguments are drawn from the pool (full product, arity <= 3)."""
        m = self.m
        B, I, R, S = self.B, self.I, self.R, self.S
        P = lambda s: pool.get(s, [])
        out = []

        def add(name, t):
            if t is not None:
                out.append((name, t))

        # Boolean
        for x in P(B):
            add("not", self._try(m.Not, x))
        for x, y in itertools.product(P(B), repeat=2):
            add("and", self._try(m.And, x, y))
            add("or", self._try(m.Or, x, y))
            add("implies", self._try(m.Implies, x, y))
            add("iff", self._try(m.Iff, x, y))
        # n-ary and/or with 3 args over the first few
        for x, y, z in itertools.product(P(B)[:4], repeat=3):
            add("and3", self._try(m.And, x, y, z))
            add("or3", self._try(m.Or, x, y, z))
        # ITE at every sort
        for s in list(pool.keys()):
            for c in P(B)[:3]:
                for x, y in itertools.product(P(s)[:6], repeat=2):
                    add("ite", self._try(m.Ite, c, x, y))
        # arithmetic
        for A in (I, R):
            for x, y in itertools.product(P(A), repeat=2):
                add("plus", self._try(m.Plus, x, y))
                add("minus", self._try(m.Minus, x, y))
                add("times", self._try(m.Times, x, y))
                add("le", self._try(m.LE, x, y))
                add("lt", self._try(m.LT, x, y))
                add("equals", self._try(m.Equals, x, y))
                if self.want["nonlinear"]:
                    add("div", self._try(self._div, x, y))
            for x, y, z in itertools.product(P(A)[:4], repeat=3):
                add("plus3", self._try(m.Plus, x, y, z))
                add("times3", self._try(m.Times, x, y, z))
            if self.want["nonlinear"]:
                for x in P(A):
                    for e in (0, 1, 2, 3):
                        ec = m.Int(e) if A is I else m.Real(e)
                        add("pow", self._try(m.Pow, x, ec))
        for x in P(I):
            add("toreal", self._try(m.ToReal, x))
        # bit-vectors
        for bt in self.bvs:
            w = bt.width
            for x in P(bt):
                add("bvnot", self._try(m.BVNot, x))
                add("bvneg", self._try(m.BVNeg, x))
                add("bv2nat", self._try(m.BVToNatural, x))
                for st in range(0, w + 1):
                    add("bvrol", self._try(m.BVRol, x, st))
                    add("bvror", self._try(m.BVRor, x, st))
                for k in (0, 1, 2):
                    add("bvzext", self._try(m.BVZExt, x, k))
                    add("bvsext", self._try(m.BVSExt, x, k))
                for st in range(w):
                    for en in range(st, w):
                        add("bvextract", self._try(m.BVExtract, x, st, en))
            for x, y in itertools.product(P(bt), repeat=2):
                for nm in ("BVAnd", "BVOr", "BVXor", "BVAdd", "BVSub", "BVMul", "BVUDiv", "BVURem", "BVLShl",
                           "BVLShr", "BVAShr", "BVSDiv", "BVSRem", "BVComp", "BVULT", "BVULE", "BVSLT", "BVSLE",
                           "Equals"):
                    add(nm.lower(), self._try(getattr(m, nm), x, y))
        # concat across widths (result may be a width outside self.widths: still a valid instance)
        for bt1 in self.bvs:
            for bt2 in self.bvs:
                for x, y in itertools.product(P(bt1)[:5], P(bt2)[:5]):
                    add("bvconcat", self._try(m.BVConcat, x, y))
        # strings
        if self.want["strings"]:
            for x in P(S):
                add("strlen", self._try(m.StrLength, x))
                add("strtoint", self._try(m.StrToInt, x))
            for x in P(I):
                add("inttostr", self._try(m.IntToStr, x))
            for x, y in itertools.product(P(S), repeat=2):
                add("strconcat", self._try(m.StrConcat, x, y))
                add("strcontains", self._try(m.StrContains, x, y))
                add("strprefixof", self._try(m.StrPrefixOf, x, y))
                add("strsuffixof", self._try(m.StrSuffixOf, x, y))
                add("equals", self._try(m.Equals, x, y))
            for x, i in itertools.product(P(S), P(I)):
                add("strcharat", self._try(m.StrCharAt, x, i))
            for x, y, z in itertools.product(P(S)[:5], repeat=3):
                add("strreplace", self._try(m.StrReplace, x, y, z))
            for x, y, i in itertools.product(P(S)[:6], P(S)[:6], P(I)[:7]):
                add("strindexof", self._try(m.StrIndexOf, x, y, i))
            for x, i, j in itertools.product(P(S)[:6], P(I)[:7], P(I)[:7]):
                add("strsubstr", self._try(m.StrSubstr, x, i, j))
            for x, y, z in itertools.product(P(S)[:3], repeat=3):
                add("strconcat3", self._try(m.StrConcat, x, y, z))
        # arrays
        if self.want["arrays"]:
            ats = [(self.AII, I, I)] + [(self.abv[bt], bt, bt) for bt in self.bvs]
            for at, it, et in ats:
                for a, i in itertools.product(P(at), P(it)[:6]):
                    add("select", self._try(m.Select, a, i))
                for a, i, v in itertools.product(P(at)[:6], P(it)[:5], P(et)[:5]):
                    add("store", self._try(m.Store, a, i, v))
                for a, b in itertools.product(P(at), repeat=2):
                    add("equals", self._try(m.Equals, a, b))
                # constant arrays with non-constant default / values
                for d in P(et)[:4]:
                    add("arrayvalue", self._try(m.Array, it, d))
                    for k in self.const[it][:2]:
                        for v in P(et)[:4]:
                            add("arrayvalue", self._try(m.Array, it, d, {k: v}))
        # UF
        if self.want["uf"]:
            for x in P(I):
                add("uf", self._try(m.Function, self.fI, [x]))
                add("uf", self._try(m.Function, self.pI, [x]))
            for x, y in itertools.product(P(R)[:5], repeat=2):
                add("uf", self._try(m.Function, self.gR, [x, y]))
            for x in P(B)[:5]:
                add("uf", self._try(m.Function, self.hB, [x]))
            for bt in self.bvs:
                for x in P(bt)[:5]:
                    add("uf", self._try(m.Function, self.fV[bt], [x]))
        # quantifiers (bound: Bool / BV / Int / Real symbols of the pool)
        if self.want["quantifiers"]:
            qv = [self.sym[B][0], self.sym[I][0], self.sym[R][0]] + [self.sym[bt][0] for bt in self.bvs[:2]]
            for body in P(B):
                for v in qv:
                    add("forall", self._try(m.ForAll, [v], body))
                    add("exists", self._try(m.Exists, [v], body))
                add("forall2", self._try(m.ForAll, [self.sym[B][0], self.sym[I][1]], body))
        return out

    def _div(self, x, y):
        return self.m.Div(x, y)

    # ---- public generators ---------------------------------------------------------------
    def level0(self):
        return {s: list(self.leaves(s)) for s in self.sorts()}

    def level1(self):
        """Every operator over every combination of leaves (symbols + boundary constants)."""
        return self.apply_ops(self.level0(), "L1")

    def representatives(self, l1):
        """One level-1 term per (operator, result sort, argument shape): arguments symbol/symbol,
        symbol/constant, constant/symbol, same symbol twice."""
        reps = {}
        stc = self.env.stc
        for name, t in l1:
            args = t.args()
            shape = tuple("c" if a.is_constant() else "s" for a in args)
            if args and all(a.is_constant() for a in args):
                continue
            same = len(args) == 2 and args[0] is args[1]
            neg = any(a.node_type() in (op.INT_CONSTANT, op.REAL_CONSTANT) and a.constant_value() < 0
                      for a in args)
            key = (name, str(stc.get_type(t)), shape, same, neg)
            if key not in reps:
                reps[key] = t
        return list(reps.values())

    def level2(self, l1=None):
        """Every operator over a pool of reduced leaves + representative level-1 terms."""
        if l1 is None:
            l1 = self.level1()
        reps = self.representatives(l1)
        pool = {s: list(self.leaves(s, reduced=True)) for s in self.sorts()}
        stc = self.env.stc
        for t in reps:
            ty = stc.get_type(t)
            pool.setdefault(ty, []).append(t)
        return self.apply_ops(pool, "L2")


def dedup(named_terms):
    seen = set()
    out = []
    for name, t in named_terms:
        if t in seen:
            continue
        seen.add(t)
        out.append((name, t))
    return out
