"""Boolean skeleton grammar for C10/C11/C12: connectives over a small set of atoms, both polarities,
Boolean ITE/IFF, shared sub-formulas, optional quantifiers (Bool / BV(2) / Int binders, nested and
shadowing).  Deterministic; sizes are controlled by `tier`."""
import itertools

from pysmt import typing as T
from pysmt import operators as op


class BoolGrammar(object):
    def __init__(self, env, atoms="mixed", quantifiers=False, constants=True):
        self.env = env
        m = self.m = env.formula_manager
        tm = env.type_manager
        self.a, self.b, self.c = [m.Symbol(n, T.BOOL) for n in "abc"]
        self.i, self.j = m.Symbol("i", T.INT), m.Symbol("j", T.INT)
        bv2 = tm.BVType(2)
        self.x, self.y = m.Symbol("x", bv2), m.Symbol("y", bv2)
        self.p = m.Symbol("p", tm.FunctionType(T.BOOL, [T.INT]))
        self.r = m.Symbol("r", T.REAL)
        th = [m.LT(self.i, self.j), m.Equals(self.i, m.Plus(self.j, m.Int(1))), m.BVULT(self.x, self.y),
              m.Function(self.p, [self.i]), m.LE(self.r, m.Real(0))]
        if atoms == "bool":
            self.atoms = [self.a, self.b, self.c]
        elif atoms == "theory":
            self.atoms = th[:3]
        else:
            self.atoms = [self.a, self.b, th[0], th[2], th[3]]
        self.consts = [m.TRUE(), m.FALSE()] if constants else []
        self.quantifiers = quantifiers
        self.qvars = [[self.a], [self.x], [self.i], [self.a, self.b], [self.b, self.x]]

    def apply(self, pool, small):
        """All connectives over `pool` (binary: pool x pool, ite: small^3, quantifiers over pool)."""
        m = self.m
        out = []
        for x in pool:
            out.append(m.Not(x))
        for x, y in itertools.product(pool, repeat=2):
            out.append(m.And(x, y))
            out.append(m.Or(x, y))
            out.append(m.Implies(x, y))
            out.append(m.Iff(x, y))
        for x, y, z in itertools.product(small, repeat=3):
            out.append(m.Ite(x, y, z))
        for x, y, z in itertools.product(small[:4], repeat=3):
            out.append(m.And(x, y, z))
            out.append(m.Or(x, y, z))
        if self.quantifiers:
            for x in pool:
                for vs in self.qvars:
                    out.append(m.ForAll(vs, x))
                    out.append(m.Exists(vs, x))
        return out

    @staticmethod
    def uniq(ts, exclude=()):
        seen = set(exclude)
        out = []
        for t in ts:
            if t not in seen:
                seen.add(t)
                out.append(t)
        return out

    def rep_key(self, t):
        def cls(a):
            if a.is_bool_constant():
                return "c"
            if a.node_type() in (op.AND, op.OR, op.NOT, op.IMPLIES, op.IFF, op.ITE, op.FORALL, op.EXISTS):
                return op.op_to_str(a.node_type())
            return "a"
        args = t.args()
        same = len(set(args)) < len(args)
        pl = tuple(sorted(str(v) for v in t.quantifier_vars())) if t.is_quantifier() else ()
        return (t.node_type(), tuple(cls(a) for a in args), same, pl)

    def reps(self, ts):
        d = {}
        for t in ts:
            k = self.rep_key(t)
            if k not in d:
                d[k] = t
        return list(d.values())

    def levels(self, tier):
        """-> list of formulas: level 1 complete, level 2 over leaves+reps(L1), level 3 over reps(L2)."""
        leaves = self.atoms + self.consts
        l1 = self.uniq(self.apply(leaves, leaves[:4]), exclude=leaves)
        r1 = self.reps(l1)
        pool2 = self.atoms[:3] + self.consts[:1] + r1
        if tier == "quick":
            pool2 = self.atoms[:2] + self.consts[:1] + r1[::2]
        l2 = self.uniq(self.apply(pool2, pool2[:5]), exclude=leaves + l1)
        out = leaves + l1 + l2
        if tier == "thorough":
            r2 = self.reps(l2)
            pool3 = self.atoms[:2] + r2[::3]
            l3 = self.uniq(self.apply(pool3, pool3[:3]), exclude=out)
            out = out + l3
        return out
