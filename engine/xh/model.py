"""Dict model for symbolic keys + per-path environment construction (used inside CrossHair harnesses).

SymKeyDict replaces the five value-keyed hash tables of a pySMT environment (formulae, int_constants,
real_constants, string_constants, type_manager._bv_types).  It is a model of *Python's dict*: look-ups scan
the keys and compare with ==, so a symbolic payload forks per possibly-equal pair instead of being realised
by hash().  It assumes only "equal keys hash equal" for int/bool/str/tuple/Fraction/PySMTType.
"""
from crosshair.tracers import NoTracing


class SymKeyDict(dict):
    """Linear-scan dict: never hashes a key."""

    def __init__(self, *a, **k):
        dict.__init__(self)
        self._keys = []
        self._vals = []
        if a or k:
            for kk, vv in dict(*a, **k).items():
                self[kk] = vv

    def _find(self, key):
        for i in range(len(self._keys)):
            k = self._keys[i]
            if k is key:
                return i
            if type(k) is bool or type(key) is bool:
                # dict semantics: True == 1 and hash equal -> same slot.  Keep Python's behaviour.
                pass
            if k == key:
                return i
        return -1

    def __contains__(self, key):
        return self._find(key) >= 0

    def __getitem__(self, key):
        i = self._find(key)
        if i < 0:
            raise KeyError(key)
        return self._vals[i]

    def __setitem__(self, key, value):
        i = self._find(key)
        if i < 0:
            self._keys.append(key)
            self._vals.append(value)
        else:
            self._vals[i] = value

    def __delitem__(self, key):
        i = self._find(key)
        if i < 0:
            raise KeyError(key)
        del self._keys[i]
        del self._vals[i]

    def get(self, key, default=None):
        i = self._find(key)
        if i < 0:
            return default
        return self._vals[i]

    def setdefault(self, key, default=None):
        i = self._find(key)
        if i < 0:
            self[key] = default
            return default
        return self._vals[i]

    def __len__(self):
        return len(self._keys)

    def __iter__(self):
        return iter(list(self._keys))

    def keys(self):
        return list(self._keys)

    def values(self):
        return list(self._vals)

    def items(self):
        return list(zip(self._keys, self._vals))

    def pop(self, key, *d):
        i = self._find(key)
        if i < 0:
            if d:
                return d[0]
            raise KeyError(key)
        v = self._vals[i]
        del self._keys[i]
        del self._vals[i]
        return v

    def clear(self):
        self._keys = []
        self._vals = []

    def __bool__(self):
        return len(self._keys) > 0

    def __repr__(self):
        return "SymKeyDict(%d)" % len(self._keys)


def install_dict_model(env):
    mgr = env.formula_manager
    for attr in ("formulae", "int_constants", "real_constants", "string_constants"):
        old = getattr(mgr, attr)
        new = SymKeyDict()
        for k, v in old.items():
            new[k] = v
        setattr(mgr, attr, new)
    tm = env.type_manager
    if hasattr(tm, "_bv_types"):
        new = SymKeyDict()
        for k, v in tm._bv_types.items():
            new[k] = v
        tm._bv_types = new
    return env


def new_env(dict_model=True):
    """Fresh environment built without tracing (0.4 ms instead of 2.6 s) and pushed as the current one."""
    with NoTracing():
        from pysmt.environment import Environment, push_env
        env = Environment()
        env.enable_div_by_0 = True
        env.enable_infix_notation = True
        push_env(env)
        if dict_model:
            install_dict_model(env)
    return env


def drop_env():
    with NoTracing():
        from pysmt.environment import pop_env, ENVIRONMENTS_STACK
        if len(ENVIRONMENTS_STACK) > 1:
            pop_env()
