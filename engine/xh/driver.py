"""XH engine driver: CrossHair on harness functions (PEP316 contracts), one worker process per obligation.

Verdicts:  confirmed   - "Confirmed over all paths" (every path of the bounded input space discharged by z3)
           refuted     - post-condition false / exception, with the concrete arguments of the counterexample
           inconclusive- not confirmed / timeout / unable to meet precondition
"""
import ast
import importlib
import multiprocessing
import os
import time
import traceback

from engine import core


def _analyze(modname, fname, per_cond, per_path, q, params=None):
    try:
        core.setup_paths()
        import warnings
        warnings.simplefilter("ignore")
        from crosshair.core_and_libs import analyze_function, run_checkables
        from engine.xh import plugin
        plugin.install()      # after CrossHair's own registrations: later entries take precedence
        from crosshair.options import AnalysisOptionSet, AnalysisKind
        from crosshair.statespace import MessageType
        mod = importlib.import_module(modname)
        if params is not None:
            mod.PARAMS.clear()
            mod.PARAMS.update(params)
        fn = getattr(mod, fname)
        opts = AnalysisOptionSet(analysis_kind=[AnalysisKind.PEP316], per_condition_timeout=per_cond,
                                 per_path_timeout=per_path, report_all=True, max_uninteresting_iterations=10 ** 9)
        t0 = time.time()
        checkables = analyze_function(fn, opts)
        msgs = run_checkables(checkables)
        dt = time.time() - t0
        out = []
        for m in msgs:
            out.append({"state": m.state.name, "message": m.message, "line": m.line})
        q.put({"ok": True, "messages": out, "t": dt, "stats": dict(plugin.STATS)})
    except BaseException as e:  # noqa
        q.put({"ok": False, "error": "%r\n%s" % (e, traceback.format_exc()[-1500:])})


def parse_call(message, fname):
    """'false when calling f(1, b=2) (which returns ...)' -> ([1], {'b': 2}) via ast.literal_eval."""
    key = "calling " + fname + "("
    i = message.find(key)
    if i < 0:
        return None
    j = i + len(key) - 1
    depth = 0
    k = j
    in_str = None
    while k < len(message):
        ch = message[k]
        if in_str:
            if ch == "\\":
                k += 1
            elif ch == in_str:
                in_str = None
        elif ch in "\"'":
            in_str = ch
        elif ch in "([{":
            depth += 1
        elif ch in ")]}":
            depth -= 1
            if depth == 0:
                break
        k += 1
    src = "f" + message[j:k + 1]
    try:
        call = ast.parse(src, mode="eval").body
        args = [ast.literal_eval(a) for a in call.args]
        kwargs = {kw.arg: ast.literal_eval(kw.value) for kw in call.keywords}
        return args, kwargs
    except Exception:
        return None


def run_one(modname, fname, per_cond=30.0, per_path=None, hard_timeout=None, params=None):
    """-> dict(verdict, args, kwargs, message, t, stats)"""
    ctx = multiprocessing.get_context("fork")
    q = ctx.Queue()
    per_path = per_path if per_path is not None else max(5.0, per_cond / 2)
    p = ctx.Process(target=_analyze, args=(modname, fname, per_cond, per_path, q, params))
    t0 = time.time()
    p.start()
    hard = hard_timeout or (per_cond * 2 + 30)
    res = None
    try:
        res = q.get(timeout=hard)
    except Exception:
        res = None
    p.join(timeout=5)
    if p.is_alive():
        p.kill()
        p.join()
    dt = time.time() - t0
    if res is None:
        return {"verdict": "inconclusive", "message": "hard timeout %.0fs" % hard, "t": dt, "stats": {}}
    if not res.get("ok"):
        return {"verdict": "error", "message": res.get("error", "?"), "t": dt, "stats": {}}
    msgs = res["messages"]
    stats = res.get("stats", {})
    if not msgs:
        return {"verdict": "inconclusive", "message": "no message (no contract found?)", "t": dt, "stats": stats}
    states = [m["state"] for m in msgs]
    for m in msgs:
        if m["state"] in ("POST_FAIL", "EXEC_ERR", "POST_ERR"):
            pc = parse_call(m["message"], fname)
            return {"verdict": "refuted", "message": m["message"], "args": pc[0] if pc else None,
                    "kwargs": pc[1] if pc else None, "t": dt, "stats": stats, "state": m["state"]}
    if all(s == "CONFIRMED" for s in states):
        return {"verdict": "confirmed", "message": "; ".join(m["message"] for m in msgs), "t": dt, "stats": stats}
    return {"verdict": "inconclusive", "message": "; ".join("%s: %s" % (m["state"], m["message"]) for m in msgs),
            "t": dt, "stats": stats}


def _job(a):
    modname, fname, per_cond, params = a
    r = run_one(modname, fname, per_cond, params=params)
    r["fn"] = fname
    r["mod"] = modname
    r["params"] = params
    return r


def run_many(jobs, workers=None):
    """jobs: list of (modname, fname, per_cond, params).  Daemonic pool workers cannot fork children, so this uses
    a thread pool in the parent: each thread blocks on its own CrossHair subprocess."""
    from concurrent.futures import ThreadPoolExecutor
    workers = workers or core.nworkers()
    with ThreadPoolExecutor(max_workers=workers) as ex:
        return list(ex.map(_job, jobs))
