"""CrossHair plugin: bit operations on symbolic ints without realisation.

CrossHair 0.0.110 realises both operands of `|`, `^`, shifts by a symbolic amount, and `&` with anything
but a low mask.  Here they are encoded with Int2BV/BV2Int on a K-bit window (guarded by a fork on
0 <= v < 2**K; outside the window the stock realising behaviour is kept) and shifts by an ITE chain.
"""
import operator as ops

import z3

from crosshair.core import realize
from crosshair.libimpl.builtinslib import SymbolicInt, setup_binop
from crosshair.statespace import context_statespace
from crosshair.tracers import NoTracing

K = 24
_INSTALLED = False
STATS = {"bitop_symbolic": 0, "bitop_realised": 0, "shift_symbolic": 0, "shift_realised": 0}


def _smt(v):
    if isinstance(v, SymbolicInt):
        return v.var
    return z3.IntVal(int(v))


def _in_window(space, exprs):
    conds = []
    for e in exprs:
        if z3.is_int_value(e):
            if not (0 <= e.as_long() < 2 ** K):
                return False
        else:
            conds.append(z3.And(e >= 0, e < 2 ** K))
    if not conds:
        return True
    return space.smt_fork(z3.And(*conds), probability_true=0.95)


def _bitop(op, a, b):
    with NoTracing():
        if not isinstance(a, SymbolicInt) and not isinstance(b, SymbolicInt):
            return op(a, b)
        space = context_statespace()
        if op is ops.and_:
            # low-mask special case (as stock CrossHair): x & (2**k - 1) == x mod 2**k, no bit-vectors needed
            sym, con = (a, b) if isinstance(a, SymbolicInt) else (b, a)
            if not isinstance(con, SymbolicInt):
                con = int(con)
                if con == 0:
                    return 0
                if con > 0 and ((con + 1) & con) == 0:
                    if space.smt_fork(sym.var >= 0, probability_true=0.75):
                        return SymbolicInt(sym.var % (con + 1))
                    return SymbolicInt(con - ((-sym.var - 1) % (con + 1)))
        ea, eb = _smt(a), _smt(b)
        if _in_window(space, [ea, eb]):
            STATS["bitop_symbolic"] += 1
            va, vb = z3.Int2BV(ea, K), z3.Int2BV(eb, K)
            if op is ops.or_:
                r = va | vb
            elif op is ops.xor:
                r = va ^ vb
            else:
                r = va & vb
            return SymbolicInt(z3.BV2Int(r, False))
        STATS["bitop_realised"] += 1
        return op(realize(a), realize(b))


def _shift(op, a, b):
    with NoTracing():
        if not isinstance(b, SymbolicInt):
            bb = int(b)
            if bb < 0:
                raise ValueError("negative shift count")
            if not isinstance(a, SymbolicInt):
                return op(a, bb)
            if op is ops.lshift:
                return SymbolicInt(a.var * (2 ** bb))
            return SymbolicInt(a.var / z3.IntVal(2 ** bb))
        space = context_statespace()
        if space.smt_fork(b.var < 0, probability_true=0.05):
            raise ValueError("negative shift count")
        ea = _smt(a)
        if space.smt_fork(b.var <= K, probability_true=0.95):
            STATS["shift_symbolic"] += 1
            if op is ops.lshift:
                r = ea * (2 ** K)
                for k in range(K - 1, -1, -1):
                    r = z3.If(b.var == k, ea * (2 ** k), r)
            else:
                r = ea / z3.IntVal(2 ** K)
                for k in range(K - 1, -1, -1):
                    r = z3.If(b.var == k, ea / z3.IntVal(2 ** k), r)
            return SymbolicInt(r)
        STATS["shift_realised"] += 1
        bb = realize(b)
        if op is ops.lshift:
            return a * (2 ** bb)
        return a // (2 ** bb)


def install():
    global _INSTALLED
    if _INSTALLED:
        return
    _INSTALLED = True

    def h1(op, a: SymbolicInt, b: SymbolicInt):
        return _bitop(op, a, b)

    def h2(op, a: SymbolicInt, b: int):
        return _bitop(op, a, b)

    def h3(op, a: int, b: SymbolicInt):
        return _bitop(op, a, b)

    for h in (h1, h2, h3):
        setup_binop(h, {ops.or_, ops.xor, ops.and_})

    def s1(op, a: SymbolicInt, b: SymbolicInt):
        return _shift(op, a, b)

    def s2(op, a: SymbolicInt, b: int):
        return _shift(op, a, b)

    def s3(op, a: int, b: SymbolicInt):
        return _shift(op, a, b)

    for h in (s1, s2, s3):
        setup_binop(h, {ops.lshift, ops.rshift})
