"""Shared run context: obligations, verdict bookkeeping, replay-before-report, known findings, evidence."""
import hashlib
import json
import multiprocessing
import os
import subprocess
import sys
import time

VERIF = os.path.dirname(os.path.dirname(os.path.abspath(__file__)))
REPO = os.environ.get("VERIF_REPO", "/repo")

EXIT_OK, EXIT_VIOLATION, EXIT_HARNESS = 0, 1, 2


def setup_paths():
    if REPO not in sys.path:
        sys.path.insert(0, REPO)
    if VERIF not in sys.path:
        sys.path.insert(0, VERIF)


def src_sha(*relpaths):
    out = {}
    for p in relpaths:
        try:
            with open(os.path.join(REPO, p), "rb") as fh:
                out[p] = hashlib.sha1(fh.read()).hexdigest()[:12]
        except OSError:
            out[p] = "missing"
    return out


def load_known():
    try:
        with open(os.path.join(VERIF, "known_findings.json")) as fh:
            return json.load(fh)
    except OSError:
        return {"findings": [], "fixed": []}


class Run(object):
    def __init__(self, pid, tier, level, seed=None):
        self.pid = pid
        self.tier = tier
        self.level = level
        self.seed = int(os.environ.get("VERIF_SEED", "0")) if seed is None else seed
        self.t0 = time.time()
        self.obligations = 0
        self.discharged = 0
        self.inconclusive = []      # (name, reason)
        self.violations = []        # replay paths (unlisted, reproduced)
        self.known_hits = {}        # finding id -> count
        self.harness_errors = []
        self.samples = []
        self.queries = 0
        self.solver_s = 0.0
        self.families = {}          # family -> dict(counts)
        self.functions = []
        self.bounds = {}
        self.outside = []
        self.assumptions = []
        self.extra = {}
        self.nontrivial = set()
        self.evaluations = 0
        self.replayed = 0
        self.known = load_known()
        self._printed = set()

    # ---- bookkeeping ---------------------------------------------------------------------
    def fam(self, family):
        return self.families.setdefault(family, {"obligations": 0, "discharged": 0, "inconclusive": 0,
                                                 "violations": 0, "queries": 0, "solver_s": 0.0})

    def ok(self, family, n=1, queries=0, solver_s=0.0):
        d = self.fam(family)
        d["obligations"] += n
        d["discharged"] += n
        d["queries"] += queries
        d["solver_s"] += solver_s
        self.obligations += n
        self.discharged += n
        self.queries += queries
        self.solver_s += solver_s

    def inconc(self, family, name, reason, queries=0, solver_s=0.0):
        d = self.fam(family)
        d["obligations"] += 1
        d["inconclusive"] += 1
        d["queries"] += queries
        d["solver_s"] += solver_s
        self.obligations += 1
        self.queries += queries
        self.solver_s += solver_s
        self.inconclusive.append((family + ":" + name, reason))

    def sample(self, s, cap=12):
        if len(self.samples) < cap:
            self.samples.append(s)

    def harness_error(self, msg):
        self.harness_errors.append(msg)
        print("HARNESS-ERROR property=%s %s" % (self.pid, msg), flush=True)

    # ---- violations: replay before report --------------------------------------------------
    def violation(self, family, name, replay_data, signature, describe, queries=0, solver_s=0.0):
        """replay_data: JSON-able dict understood by props.<pid>.replay(); signature: stable string
        identifying the failing input class (used to match known findings)."""
        d = self.fam(family)
        d["obligations"] += 1
        d["queries"] += queries
        d["solver_s"] += solver_s
        self.obligations += 1
        self.queries += queries
        self.solver_s += solver_s
        blob = json.dumps(replay_data, sort_keys=True, default=str)
        digest = hashlib.sha1(blob.encode()).hexdigest()[:10]
        rdir = os.path.join(VERIF, "replays", self.pid)
        os.makedirs(rdir, exist_ok=True)
        path = os.path.join(rdir, "%s-%s.json" % (family.replace("/", "_"), digest))
        with open(path, "w") as fh:
            json.dump({"property": self.pid, "family": family, "name": name, "signature": signature,
                       "describe": describe, "data": replay_data}, fh, indent=1, default=str)
        self.replayed += 1
        rc, out = run_replay(self.pid, path)
        if rc == 0:
            # not reproduced natively: encoding / stub problem, never a reported violation
            self.harness_error("counterexample did not reproduce: %s (%s) %s" % (name, path, out[-300:]))
            return False
        if rc != 1:
            self.harness_error("replay crashed rc=%s for %s: %s" % (rc, path, out[-400:]))
            return False
        d["violations"] += 1
        kf = self.match_known(signature)
        if kf is not None:
            self.known_hits[kf["id"]] = self.known_hits.get(kf["id"], 0) + 1
            if kf["id"] not in self._printed:
                self._printed.add(kf["id"])
                print("KNOWN-FINDING: property=%s %s [%s]" % (self.pid, kf["what"], kf["id"]), flush=True)
            return True
        self.violations.append(path)
        if len(self.violations) <= 25:
            print("VIOLATION property=%s replay=%s" % (self.pid, path), flush=True)
            print("  " + describe[:300], flush=True)
        return True

    def match_known(self, signature):
        for kf in self.known.get("findings", []):
            if kf.get("property") != self.pid:
                continue
            for pat in kf.get("signatures", []):
                if signature == pat or (pat.endswith("*") and signature.startswith(pat[:-1])):
                    return kf
        return None

    # ---- evidence --------------------------------------------------------------------------
    def finish(self):
        wall = time.time() - self.t0
        cov = {
            "obligations": self.obligations,
            "discharged": self.discharged,
            "inconclusive": len(self.inconclusive),
            "inconclusive_list": [list(x) for x in self.inconclusive[:40]],
            "violations_unlisted": len(self.violations),
            "known_finding_hits": self.known_hits,
            "solver_queries": self.queries,
            "solver_time_s": round(self.solver_s, 3),
            "families": self.families,
            "functions_encoded": self.functions,
            "bounds": self.bounds,
            "outside_claim": self.outside,
            "samples": self.samples if self.samples else ["(no sample recorded)"],
            "evaluations": max(self.evaluations, self.obligations, 1),
            "distinct_nontrivial": max(len(self.nontrivial), self.extra.get("distinct_nontrivial", 0)),
            "rule": self.extra.get("rule", "one obligation = one solver-decided query or one CrossHair condition; "
                                          "non-trivial = the code under test changed or branched on the input"),
            "trusted_base": ["CPython", "z3 5.1", "CrossHair 0.0.110 (+bit-op plugin)", "/verif/engine/ref/*"],
            "exhaustive": False,
            "replayed_counterexamples": self.replayed,
        }
        if self.level == "translation_validation":
            cov["programs"] = max(self.extra.get("programs", self.obligations), 1)
            cov["disagreements_checked"] = self.replayed
        if self.level == "model_checking":
            cov["states"] = max(self.extra.get("states", self.obligations), 1)
            cov["transitions"] = max(self.extra.get("transitions", self.queries), 1)
            cov["traces_validated_against_impl"] = self.extra.get("traces_validated", self.replayed)
        for k, v in self.extra.items():
            if k not in cov:
                cov[k] = v
        ev = {
            "property_id": self.pid,
            "tier": self.tier,
            "seed": self.seed,
            "level": self.level,
            "coverage": cov,
            "assumptions": self.assumptions,
            "wall_s": round(wall, 2),
            "violations": len(self.violations),
        }
        evdir = os.environ.get("VERIF_EVIDENCE_DIR") or os.path.join(VERIF, "evidence")
        os.makedirs(evdir, exist_ok=True)
        with open(os.path.join(evdir, "%s.json" % self.pid), "w") as fh:
            json.dump(ev, fh, indent=1, default=str)
        print("%s tier=%s obligations=%d discharged=%d inconclusive=%d violations=%d known=%d "
              "queries=%d solver_s=%.1f wall_s=%.1f" %
              (self.pid, self.tier, self.obligations, self.discharged, len(self.inconclusive),
               len(self.violations), sum(self.known_hits.values()), self.queries, self.solver_s, wall), flush=True)
        for n, r in self.inconclusive[:10]:
            print("  inconclusive: %s -- %s" % (n, r))
        if self.harness_errors:
            return EXIT_HARNESS
        if self.violations:
            return EXIT_VIOLATION
        return EXIT_OK


def run_replay(pid, path):
    """Replays natively in a fresh interpreter (no CrossHair tracing, no dict model)."""
    cmd = [sys.executable, os.path.join(VERIF, "engine", "main.py"), pid, "--replay", path, "--quiet"]
    env = dict(os.environ)
    env["VERIF_REPO"] = REPO
    try:
        p = subprocess.run(cmd, capture_output=True, text=True, timeout=300, env=env)
        return p.returncode, p.stdout + p.stderr
    except subprocess.TimeoutExpired:
        return 3, "replay timeout"


def nworkers():
    try:
        return int(os.environ.get("VERIF_WORKERS", "0")) or min(16, os.cpu_count() or 4)
    except ValueError:
        return 8


def pmap(fn, items, workers=None, chunksize=1, maxtasks=None):
    """Parallel map over picklable items with fork workers; returns results in order."""
    items = list(items)
    workers = workers or nworkers()
    if workers <= 1 or len(items) <= 1:
        return [fn(x) for x in items]
    ctx = multiprocessing.get_context("fork")
    with ctx.Pool(min(workers, len(items)), maxtasksperchild=maxtasks) as pool:
        return pool.map(fn, items, chunksize=chunksize)


def pmap_unordered(fn, items, workers=None, chunksize=1, maxtasks=None):
    items = list(items)
    workers = workers or nworkers()
    if workers <= 1 or len(items) <= 1:
        for x in items:
            yield fn(x)
        return
    ctx = multiprocessing.get_context("fork")
    with ctx.Pool(min(workers, len(items)), maxtasksperchild=maxtasks) as pool:
        for r in pool.imap_unordered(fn, items, chunksize=chunksize):
            yield r
